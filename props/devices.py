"""Builders for SimInverter instances that look like ET / DT / ES inverters (register layout from the protocol
documentation comments in the library's tables; contents chosen by the harness)."""
from __future__ import annotations

from sim.device import SimInverter

ET_INFO = 35000
ET_RUNNING = (35100, 125)
ET_MPPT = (35301, 61)
ET_METER = 36000
ET_BATTERY = (37000, 24)
ET_BATTERY2 = (39000, 22)

ALL_ET_CAPS = ("battery", "battery2", "meter_ext", "meter_ext2", "mppt", "eco_v2", "peak_shaving")


def _ascii_words(text: str, nbytes: int) -> bytes:
    b = text.encode("ascii", "replace")[:nbytes]
    return b + b" " * (nbytes - len(b))


def et_valid_ranges(caps):
    v = [(35000, 35032), (35100, 35224), (36000, 36044),
         (45000, 47541), (47900, 47935)]
    if "battery" in caps:
        v.append((37000, 37023))
    if "battery2" in caps:
        v.append((39000, 39021))
    if "meter_ext" in caps:
        v.append((36045, 36057))
    if "meter_ext2" in caps:
        v.append((36045, 36124))
    if "mppt" in caps:
        # the library's MPPT table lists sensors up to 35364 (apparent_power3): a device that has the block has those
        # registers, although the library's bulk request stops at 35361 (C14's known findings)
        v.append((35301, 35364))
    if "eco_v2" in caps:
        v.append((47545, 47588))
        v.append((47595, 47603))
    if "peak_shaving" in caps:
        v.append((47542, 47544))
        v.append((47589, 47594))
        v.append((47602, 47612))
    return v


def make_et(serial="9010KETU000W0001", rated_power=10000, caps=ALL_ET_CAPS, seed=0, fill="hash", model="GW10K-ET",
            arm_version=22, restrict=True, comm_addr=0xF7, battery_mode=1):
    dev = SimInverter(seed=seed, mode="file", comm_addr=comm_addr, valid=et_valid_ranges(caps) if restrict else None,
                      aa55=False, fill=fill)
    info = bytearray(66)
    info[0:2] = (1).to_bytes(2, "big")
    info[2:4] = (rated_power & 0xFFFF).to_bytes(2, "big")
    info[4:6] = (1).to_bytes(2, "big")
    info[6:22] = _ascii_words(serial, 16)
    info[22:32] = _ascii_words(model, 10)
    info[32:34] = (4).to_bytes(2, "big")
    info[34:36] = (4).to_bytes(2, "big")
    info[36:38] = (100).to_bytes(2, "big")
    info[38:40] = (arm_version & 0xFFFF).to_bytes(2, "big")
    info[40:42] = (200).to_bytes(2, "big")
    info[42:54] = _ascii_words("04029-04-S11", 12)
    info[54:66] = _ascii_words("02041-22-S00", 12)
    dev.set_bytes(ET_INFO, bytes(info))
    if battery_mode is not None:
        dev.set_reg(35184, battery_mode)
    dev.family = "ET"
    return dev


def dt_valid_ranges(meter=True):
    v = [(30001, 30040), (30063, 30082), (30100, 30172), (40173, 40180), (40300, 40400)]
    if meter:
        v.append((30195, 30209))
    return v


def make_dt(serial="9010KDTU000W0001", meter=True, seed=0, fill="hash", model="GW10K-DT", restrict=True,
            comm_addr=0x7F):
    dev = SimInverter(seed=seed, mode="file", comm_addr=comm_addr, valid=dt_valid_ranges(meter) if restrict else None,
                      aa55=False, fill=fill)
    info = bytearray(80)
    info[6:22] = _ascii_words(serial, 16)
    info[22:32] = _ascii_words(model, 10)
    info[66:68] = (15).to_bytes(2, "big")
    info[68:70] = (15).to_bytes(2, "big")
    info[70:72] = (13).to_bytes(2, "big")
    info[72:74] = (267).to_bytes(2, "big")
    info[74:76] = (17).to_bytes(2, "big")
    dev.set_bytes(30001, bytes(info))
    dev.family = "DT"
    return dev


def make_es(serial="95048ESU000W0001", firmware="2525B", seed=0, model="GW5048D-ES", runtime=None, settings=None,
            eco_v2_modbus=False, fill="hash"):
    """firmware: 5 chars 'DDddA' -> dsp1=DD, dsp2=dd, arm=base36(A)"""
    dev = SimInverter(seed=seed, mode="file", comm_addr=0xF7 if eco_v2_modbus else None, aa55=True,
                      modbus=eco_v2_modbus, fill=fill)
    info = bytearray(b" " * 64)
    info[0:5] = _ascii_words(firmware, 5)
    info[5:15] = _ascii_words(model, 10)
    info[15:31] = _ascii_words("", 16)
    info[31:47] = _ascii_words(serial, 16)
    info[47:51] = b"4000"
    info[51:63] = _ascii_words("360.1.2.3", 12)
    dev.blocks[0x0102] = bytes(info)
    if runtime is None:
        runtime = bytes(dev.default_word(20000 + j) & 0xFF for j in range(142))
    dev.blocks[0x0106] = runtime
    if settings is None:
        settings = bytes(dev.default_word(21000 + j) & 0xFF for j in range(86))
    dev.settings_block = bytearray(settings)
    dev.family = "ES"
    return dev
