"""C12 - each sensor value is the documented reading of exactly its own registers (DESIGN 6/C12)."""
from __future__ import annotations

from sim.net import World
from sim import refdecode as R
from sim import codec
from . import common as C
from . import decoding as D
from .common import viol

ID = "C12"
LEVEL = "exploration"
BATCH = 1
RULE = ("A client polls a simulated inverter (ET in 5 model variants, DT in 4, ES in 2; RTU/UDP, Modbus/TCP, AA55) "
        "whose register contents EVOLVE between polls: in 'step' mode byte j of the address space is an affine "
        "function of the poll number k with odd multiplier, constructed so that over k = 0..65535 every pair of "
        "adjacent bytes - i.e. every 2-byte field at any alignment - takes every 16-bit value exactly once while all "
        "other fields change too; further polls use all-zero, all-0xFF, boundary words {0000, FFFF, 7FFF, 8000, 0001, "
        "FFFE} (sentinels and their neighbours for 4/6/8-byte fields) and seeded random contents.  Values come from "
        "read_runtime_data() (block window) and from read_sensor() (own-register window); on ES also from "
        "read_settings_data() / read_setting() for the settings table (settings outside the settings block - or cut "
        "off by a settings block of another length, 0..90 bytes - must be None in the bulk result).  Device quirks "
        "that must not influence any value: a wrong Modbus/TCP message-length field (data-only, 6, too large).  "
        "Oracle: value == "
        "reference decode (sim/refdecode.py) of exactly the sensor's own bytes in the device's register file; since "
        "the reference depends on nothing else and all neighbours keep changing, equality is non-interference.  A "
        "benign-fault sub-batch repeats this under loss within the retry budget, in-time delay and fragmentation.  "
        "quick: 2048 of the 65536 step polls per configuration (k spread by an odd multiplier); thorough: all 65536.  "
        "Non-trivial: every poll (contents differ); distinct: (configuration, fill mode, k).")
ASSUMPTIONS = [
    "a sensor's declared class/offset/scale/labels in the library's tables are the specification of WHERE a value "
    "lives; a mutant editing a table address is outside this check (recorded-data tests pin the tables)",
    "reference decoder written from class docstrings; float-valued sensors compared with relative tolerance 2^-50",
    "schedule/eco-mode day bits outside [0,127] u {-1} have no documented text; only their presence is checked (C11)",
]
LEVEL_TEXT = ("Exploration with exhaustive per-field value coverage realised as a deterministic device-evolution "
              "workload on the simulator (thorough: every 16-bit value of every 2-byte field; quick: 1/32 of them), "
              "through the real request/response path (trim_response, get_offset, seek, read) over all three "
              "framings.  The property is input-quantified; what the simulator adds is the end-to-end path, the "
              "block/own-register windows and invariance under benign faults (DESIGN 6, note on fit).")
LEVEL_NOTE = "Trusted: reference decoder (sim/refdecode.py), device register file, independent codec."
TECHNIQUE = "deterministic simulation: polling a register-evolving peer model; reference decode of own bytes"

CHUNK = 64
STEP_POLLS = {"quick": 2048, "thorough": 65536}
OTHER_FILLS = [("zero", 0), ("ff", 0)] + [("bound", s) for s in range(1, 9)] + [("hash", s) for s in range(1, 9)] + \
              [("sp32a", s) for s in range(1, 5)] + [("sp32b", s) for s in range(1, 5)] + [("constw", s) for s in range(8)]
OTHER_POLLS = {"quick": 1, "thorough": 4}
_SPACE = {}


def _space(tier):
    if tier not in _SPACE:
        out = []
        nchunks = STEP_POLLS[tier] // CHUNK
        for ci, cfg in enumerate(D.CONFIGS):
            for ch in range(nchunks):
                out.append((ci, "step", ch, ch % 4 == 3))
            for rep in range(OTHER_POLLS[tier]):
                for fill, seed in OTHER_FILLS:
                    out.append((ci, fill, seed + 100 * rep, False))
        _SPACE[tier] = out
    return _SPACE[tier]


def warm(tier):
    _space(tier)


def n_cases(tier):
    return len(_space(tier))


def exhaustive(tier):
    return tier == "thorough"


MBAP_LEN = [None, "data", None, "six", None, "big"]
ES_SETTINGS_LENS = [90, 86, 90, 70, 90, 66, 57, 90, 44, 33, 12, 0]


def make_case(tier, seed, index):
    ci, fill, x, benign = _space(tier)[index]
    fam, var, tr = D.CONFIGS[ci]
    # device quirks that must not influence any value: a wrong Modbus/TCP message length field (GoodWe devices are
    # known for it, the library ignores the field) and, on ES, a settings block of another length
    quirks = {"mbap_len": MBAP_LEN[index % len(MBAP_LEN)] if tr == "tcp" else None,
              "es_settings_len": ES_SETTINGS_LENS[index % len(ES_SETTINGS_LENS)] if fam == "ES" else None,
              # ... and an application that runs the library's logger at DEBUG level
              "debug_log": index % 11 == 5, "warn_error": index % 5 == 3,
              # every other case has a valid clock; its year byte sweeps 0..255 (2000..2255)
              "clock": ((index * 37) % 256) if index % 2 == 0 else None}
    if fill == "step":
        total = STEP_POLLS[tier]
        mult = 40503 if total < 65536 else 1
        ks = [((x * CHUNK + i) * mult + seed * 7919) & 0xFFFF for i in range(CHUNK)]
        return dict({"family": fam, "variant": var, "transport": tr, "fill": "step", "seed": seed & 0xFFFF, "ks": ks,
                     "benign": benign}, **quirks)
    return dict({"family": fam, "variant": var, "transport": tr, "fill": fill,
                 "seed": (x if fill == "constw" else x * 31 + seed), "ks": [0, 1, 2, 3], "benign": False}, **quirks)


def simplify(case):
    out = []
    if len(case["ks"]) > 1:
        for k in case["ks"]:
            out.append(dict(case, ks=[k]))
    if case.get("benign"):
        out.append(dict(case, benign=False))
    if case.get("mbap_len"):
        out.append(dict(case, mbap_len=None))
    if case.get("es_settings_len") not in (None, 90):
        out.append(dict(case, es_settings_len=90))
    return out


SHRINK_FROZEN = ("ks",)


def run_case(case, oracle="plain"):
    goodwe, gp, ge = C.goodwe_mods()
    import goodwe.const as gconst
    fam, var, tr = case["family"], case["variant"], case["transport"]
    world = World(max_steps=2_000_000)
    dev, inv = D.build(goodwe, fam, var, tr, case["seed"], case["fill"])
    world.net.add_device(C.HOST, C.port_of(tr), dev)
    if case.get("mbap_len"):
        dev.mbap_len = case["mbap_len"]
    if case.get("es_settings_len") is not None:
        dev.es_settings_len = case["es_settings_len"]
    if case.get("clock") is not None and fam in ("ET", "DT"):
        # a VALID inverter clock (the fills practically never produce one): year byte from the whole 0..255 range
        y, sd = case["clock"], case["seed"]
        ts = bytes([y, 1 + sd % 12, 1 + (sd >> 3) % 28, (sd >> 5) % 24, (sd >> 2) % 60, (sd >> 1) % 60])
        dev.set_bytes(35100 if fam == "ET" else 30100, ts)
        dev.set_bytes(45200 if fam == "ET" else 40313, ts)
    violations = []
    stats = {"polls": 0, "values_checked": 0, "single_reads": 0}
    world.events = _Quiet()
    pid = "C12" if oracle == "plain" else "C13"

    state_refused = []

    def benign_script(k):
        # loss within the retry budget (retries=1), in-time delay, two fragments
        m = k % 3
        if m == 0:
            return [{"k": "drop"}]
        if m == 1:
            return [{"k": "ok", "d": 0.5}]
        return [{"k": "frag", "s": 9, "d1": 0.001, "d2": 0.25}]

    async def main():
        await inv.read_device_info()
        for k in case["ks"]:
            dev.k = k
            req0 = len(dev.requests)
            if case.get("benign"):
                world.net.begin_script(benign_script(k), {"k": "ok"})
            try:
                data = await inv.read_runtime_data()
            except Exception as e:  # noqa
                violations.append(viol(f"{pid}:bulk-failed:{fam}:{type(e).__name__}",
                                       f"{fam}/{var}/{tr} fill={case['fill']} k={k}: read_runtime_data raised {e!r}"))
                return
            stats["polls"] += 1
            stats["hash"] = C.sig_hash((stats.get("hash"), sorted((a, repr(b)) for a, b in data.items())))
            sensors = inv.sensors()
            windows = [(q["reg"], q["reg"] + q["count"]) for q in dev.requests[req0:]
                       if q.get("framing") in ("rtu", "tcp") and q.get("fc") == 3]
            by_id = {}
            for sn_ in sensors:
                by_id[sn_.id_] = sn_
            if oracle == "plain":
                exp = D.expected_plain(dev, fam, sensors)
                for sid, (ref, cls) in exp.items():
                    if sid not in data:
                        continue
                    if ref == "short":
                        continue
                    if fam != "ES":
                        o = by_id[sid].offset
                        n = (R.WIDTH[cls] + 1) // 2
                        if not any(lo <= o and o + n <= hi for lo, hi in windows):
                            stats["outside_window"] = stats.get("outside_window", 0) + 1
                            continue  # not completely inside a fetched window: C14's subject
                    stats["values_checked"] += 1
                    if cls in ("EcoModeV1", "EcoModeV2", "Schedule", "PeakShavingMode"):
                        continue
                    if not R.same(data[sid], ref):
                        sn = next(s for s in sensors if s.id_ == sid)
                        own = D.own_bytes(dev, fam, sn, R.WIDTH[cls])
                        kx = cls
                        if cls in ("Enum", "EnumH", "EnumL") and data[sid] == R.decode(
                                cls, own, labels=D.labels_of(sn), enum_signed=True):
                            kx = f"{cls}:signed-lookup:{sid}"   # the code byte was looked up as a signed number
                        violations.append(viol(f"C12:{fam}:{kx}",
                                               f"{fam}/{var}/{tr} fill={case['fill']} k={k}: {sid} ({cls} @ {sn.offset}) "
                                               f"= {data[sid]!r}, own bytes {own.hex()} decode to {_show(ref)}"))
                        return
                if fam == "ES" and k % 8 == 0:
                    # ES settings table through the bulk read_settings_data(): block-resident settings live at their
                    # byte offset in the 0109 block, the eco mode groups and switches in their own registers
                    sdata = await inv.read_settings_data()
                    outside = [x for x in inv.settings() if type(x).__name__ in R.WIDTH and x.offset >= 1000]
                    pick = outside[(k // 8) % len(outside)].id_ if outside else None
                    for st_ in inv.settings():
                        scls = type(st_).__name__
                        if scls not in R.WIDTH or st_.id_ not in sdata:
                            continue
                        w = R.WIDTH[scls]
                        if st_.offset < 1000:
                            blk = D.es_block(dev, 0x0109)
                            own = blk[st_.offset:st_.offset + w]
                            if len(own) < w:
                                # the block that was read ends before (or inside) this setting: there are no bytes to
                                # interpret, anything but None is made up
                                stats["values_checked"] += 1
                                if sdata[st_.id_] is not None:
                                    violations.append(viol(f"C12:ES-settings:{scls}:fabricated",
                                                           f"{fam}/{var}/{tr} fill={case['fill']} k={k}: read_settings_data()"
                                                           f"[{st_.id_!r}] = {sdata[st_.id_]!r:.80} although the {len(blk)} "
                                                           f"byte settings block ends before offset {st_.offset + w}"))
                                    return
                                continue
                        elif st_.offset < 30000:
                            own = dev.get_aa55_bytes(st_.offset, (w + 1) // 2)[:w]
                        else:
                            own = dev.get_bytes(st_.offset, (w + 1) // 2)[:w]
                        if len(own) < w:
                            continue
                        ref = R.decode(scls, own, scale=getattr(st_, "scale", None), labels=D.labels_of(st_))
                        got = sdata[st_.id_]
                        how = "read_settings_data()"
                        stats["values_checked"] += 1
                        if st_.offset >= 1000:
                            # its registers are not inside the block that was read: the bulk call has no bytes to
                            # interpret ('and of nothing else'), the single-value read fetches the setting's registers
                            if got is not None:
                                violations.append(viol(f"C12:ES-settings:{scls}:fabricated",
                                                       f"{fam}/{var}/{tr} fill={case['fill']} k={k}: read_settings_data()"
                                                       f"[{st_.id_!r}] = {got!r:.120} although the setting's registers "
                                                       f"({st_.offset}) are not part of the settings block"))
                                return
                            if st_.id_ != pick:
                                continue
                            rec = await C.do_call(world, "read_setting", lambda i=st_.id_: inv.read_setting(i))
                            how = "read_setting()"
                            if rec["outcome"] == "result":
                                got = rec["value"]
                            elif rec["outcome"] == "other:ValueError":
                                got = None
                            else:
                                continue
                        if scls in ("EcoModeV1", "EcoModeV2"):
                            if ref is R.NOVALUE:
                                from .c11 import _day_ok
                                # day-of-week bytes outside [0,127] u {-1} have no documented reading: no claim (C11)
                                bad = got is not None and _day_ok(scls, own)
                            else:
                                bad = got is None or any(R.eco_fields(got).get(kk) != vv for kk, vv in ref.items()
                                                         if kk in R.eco_fields(got) and kk not in ("days",))
                        else:
                            bad = not R.same(got, ref)
                        if bad:
                            violations.append(viol(f"C12:ES-settings:{scls}",
                                                   f"{fam}/{var}/{tr} fill={case['fill']} k={k}: {how}"
                                                   f"[{st_.id_!r}] = {got!r:.120}, own registers {own.hex()} decode to "
                                                   f"{_show(ref):.160}"))
                            return
                if fam in ("ET", "DT") and k % 8 == 0 and oracle == "plain":
                    # bulk read_settings_data() of ET/DT: every plain numeric setting is the decode of ITS OWN registers,
                    # also when the inverter refuses one of the settings in the middle of the table
                    plain_cls = ("Integer", "IntegerS", "Long", "LongS", "Decimal", "Voltage", "Current", "CurrentS",
                                 "ByteH", "ByteL", "Byte")
                    sts = [x for x in inv.settings() if type(x).__name__ in plain_cls
                           and dev.is_valid(x.offset, max(1, (x.size_ + 1) // 2))]
                    refused_id = None
                    if len(sts) > 3 and not state_refused:
                        x = sts[(k // 8) % (len(sts) - 1)]
                        dev.exc_map.append((x.offset, x.offset + max(1, (x.size_ + 1) // 2) - 1, 2))
                        refused_id = x.id_
                        state_refused.append(refused_id)
                    listed = {x.id_: x for x in inv.settings()}
                    sdata = await inv.read_settings_data()
                    for sid_, st_ in listed.items():
                        scls = type(st_).__name__
                        if scls not in plain_cls or sid_ in state_refused or sid_ not in sdata \
                                or not dev.is_valid(st_.offset, max(1, (st_.size_ + 1) // 2)):
                            continue
                        own = dev.get_bytes(st_.offset, (R.WIDTH[scls] + 1) // 2)[:R.WIDTH[scls]]
                        ref = R.decode(scls, own, scale=getattr(st_, "scale", None))
                        stats["values_checked"] += 1
                        if not R.same(sdata[sid_], ref):
                            violations.append(viol(f"C12:{fam}-settings:{scls}",
                                                   f"{fam}/{var}/{tr} fill={case['fill']} k={k}: read_settings_data()"
                                                   f"[{sid_!r}] = {sdata[sid_]!r}, own registers {own.hex()} (@{st_.offset}) "
                                                   f"decode to {_show(ref)}"
                                                   + (f" (the inverter refuses {state_refused[0]!r})" if state_refused else "")))
                            return
                # own-register window through read_sensor for a rotating sample
                if fam != "ES":
                    plain = [s for s in sensors if type(s).__name__ in R.WIDTH and s.size_ >= min(2, R.WIDTH[type(s).__name__])
                             and type(s).__name__ not in ("Apparent4", "Reactive4", "EnumBitmap4")]
                    for j in range(4):
                        sn = plain[(k * 4 + j) % len(plain)]
                        cls = type(sn).__name__
                        own = D.own_bytes(dev, fam, sn, R.WIDTH[cls])
                        if cls in D.LABEL_CLASSES and D.labels_of(sn) is None:
                            continue
                        ref = R.decode(cls, own, scale=getattr(sn, "scale", None), labels=D.labels_of(sn))
                        try:
                            v = await inv.read_sensor(sn.id_)
                            bad = not R.same(v, ref)
                        except ValueError:
                            v = "ValueError"
                            bad = ref is not R.NOVALUE
                        stats["single_reads"] += 1
                        if bad and exp.get(sn.id_, (None,))[0] is ref or (bad and sn.id_ not in exp):
                            pass
                        if bad:
                            # only the LAST table entry of a duplicated id is reachable through read_sensor
                            last = [s for s in sensors if s.id_ == sn.id_][-1]
                            if last is not sn:
                                continue
                            violations.append(viol(f"C12:single:{fam}:{cls}",
                                                   f"{fam}/{var}/{tr} k={k}: read_sensor({sn.id_}) = {v!r}, own bytes "
                                                   f"{own.hex()} decode to {_show(ref)}"))
                            return
            else:
                alts = {}
                exp = D.derived_expectations(dev, fam, sensors, gconst, alts)
                for sid, want in D.pair_expectations(sensors, data).items():
                    stats["values_checked"] += 1
                    if isinstance(want, tuple) and want[0] == "bitmap":
                        if data[sid] != want[2]:
                            key = f"C13:{fam}:pair:{sid}"
                            if key not in {v["key"] for v in violations}:
                                violations.append(viol(key, f"{fam}/{var}/{tr} fill={case['fill']} k={k}: {sid} = {data[sid]!r} "
                                                       f"but the code {want[1]} of the same result is {data[want[1]]!r} "
                                                       f"(its set bits give {want[2]!r})"))
                        continue
                    if data[sid] != want:
                        key = f"C13:{fam}:pair:{sid}"
                        if key not in {v["key"] for v in violations}:
                            violations.append(viol(key, f"{fam}/{var}/{tr} fill={case['fill']} k={k}: {sid} = {data[sid]!r} "
                                                   f"but the code {sid[:-6]} of the same result is {data[sid[:-6]]!r} "
                                                   f"(table lookup gives {want!r})"))
                # a total equals the sum of its parts AS REPORTED IN THE SAME RESULT, to the watt, when every part is listed
                parts = [f"ppv{i}" for i in range(1, 5 if fam == "ET" else 4)]
                if fam in ("ET", "DT") and all(p_ in data and isinstance(data[p_], int) for p_ in parts) \
                        and isinstance(data.get("ppv"), int) and data["ppv"] != sum(data[p_] for p_ in parts):
                    key = f"C13:{fam}:formula:ppv-sum"
                    if key not in {v["key"] for v in violations}:
                        violations.append(viol(key, f"{fam}/{var}/{tr} fill={case['fill']} k={k}: ppv = {data['ppv']} but "
                                               f"{' + '.join(parts)} of the same result = "
                                               f"{' + '.join(str(data[p_]) for p_ in parts)} = {sum(data[p_] for p_ in parts)}"))
                if fam == "ET":
                    # the documented formulas over the RAW VALUES OF THE SAME RESULT (whatever class reports them)
                    ap_, gio_, hc_ = data.get("active_power"), data.get("grid_in_out"), data.get("house_consumption")
                    ppv_, pb_ = data.get("ppv"), data.get("pbattery1")
                    if isinstance(ap_, int) and gio_ is not None and gio_ != D.grid_mode(ap_):
                        key = "C13:ET:formula:grid_in_out"
                        if key not in {v["key"] for v in violations}:
                            violations.append(viol(key, f"{fam}/{var}/{tr} fill={case['fill']} k={k}: grid_in_out = {gio_!r} but "
                                                   f"active_power of the same result is {ap_} (-> {D.grid_mode(ap_)})"))
                    if all(isinstance(x, int) for x in (ap_, hc_, ppv_, pb_)) and hc_ != ppv_ + pb_ - ap_:
                        key = "C13:ET:formula:house_consumption"
                        if key not in {v["key"] for v in violations}:
                            violations.append(viol(key, f"{fam}/{var}/{tr} fill={case['fill']} k={k}: house_consumption = {hc_} "
                                                   f"but ppv + pbattery1 - active_power of the same result = "
                                                   f"{ppv_} + {pb_} - {ap_} = {ppv_ + pb_ - ap_}"))
                for sid, ref in exp.items():
                    if sid not in data:
                        continue
                    stats["values_checked"] += 1
                    if not D.match_derived(data[sid], ref):
                        sn = next(s for s in sensors if s.id_ == sid)
                        kname = sid if type(sn).__name__ in ('Calculated', 'EnumCalculated') else type(sn).__name__
                        if type(sn).__name__ == "EnumBitmap22":
                            # is it exactly the known operator-precedence defect (hi << (16 + lo))?
                            hi = R.u(D.reg_bytes(dev, fam, sn.offset, 2))
                            lo = R.u(D.reg_bytes(dev, fam, getattr(sn, "_offsetL", sn.offset), 2))
                            hi, lo = (0 if hi == 0xFFFF else hi), (0 if lo == 0xFFFF else lo)
                            if data[sid] == R.decode_bitmap(hi << (16 + lo), D.labels_of(sn) or {}):
                                kname += ":hi<<(16+lo)"
                        if sid in alts and D.match_derived(data[sid], alts[sid][0]):
                            kname += ":" + alts[sid][1] + ":" + var   # the model is part of the finding's identity
                        key = f"C13:{fam}:{kname}"
                        if key not in {v["key"] for v in violations}:
                            violations.append(viol(key,
                                                   f"{fam}/{var}/{tr} fill={case['fill']} k={k}: {sid} = {data[sid]!r}, "
                                                   f"definition over the raw registers gives {_show(ref)}"))

    status, _ = C.run_world(world, main())
    if status != "ok":
        violations.append(viol(f"{pid}:hang:{fam}", f"polling did not terminate: {status}"))
    if oracle == "plain" and fam in ("ET", "DT"):
        _below_window(gp, inv, case, violations, stats)
    world.events = []
    world.log("summary", fam, var, tr, case["fill"], stats["polls"], stats["values_checked"], stats.get("hash"),
              len(violations),
              violations[0]["detail"] if violations else None)
    sigs = [(fam, var, tr, case["fill"], case["seed"] if case["fill"] != "step" else None, k) for k in case["ks"]]
    return C.package(world, case, violations, sigs[0], True,
                     {"polls": stats["polls"], "values_checked": stats["values_checked"],
                      "single_reads": stats["single_reads"], "outside_window_skipped": stats.get("outside_window", 0),
                      "below_window_decodes": stats.get("below_window", 0)},
                     sigs=sigs)


def _below_window(gp, inv, case, violations, stats):
    """Block start addresses: a response whose block starts ABOVE a sensor's register contains none of the sensor's
    bytes - decoding the sensor from it must give no value (ProtocolResponse + Sensor.read, the public pieces the
    inverter classes map their tables with)."""
    import random
    rnd = random.Random(case["seed"] * 7919 + case["ks"][0])
    sensors = [x for x in inv.sensors() if type(x).__name__ in R.WIDTH and x.offset > 0]
    for sn in rnd.sample(sensors, min(6, len(sensors))):
        delta = rnd.choice([1, 2, 3, 5, 8, 60])
        count = rnd.choice([4, 8, 16])
        payload = bytes(rnd.getrandbits(8) | 1 for _ in range(2 * count))
        cmd = gp.ModbusRtuReadCommand(0xF7, sn.offset + delta, count)
        body = bytes((0xF7, 3, 2 * count)) + payload
        raw = b"\xaa\x55" + body + codec.crc_bytes(body)
        stats["below_window"] = stats.get("below_window", 0) + 1
        try:
            v = sn.read(gp.ProtocolResponse(raw, cmd))
        except Exception:  # noqa
            continue
        if v is not None:
            violations.append(viol(f"C12:below-window:{type(sn).__name__}",
                                   f"{sn.id_} (register {sn.offset}) decoded as {v!r} from a response whose block "
                                   f"starts at register {sn.offset + delta} (count {count}): none of those bytes are "
                                   f"the sensor's own"))
            return


def _show(ref):
    if isinstance(ref, tuple):
        return repr(ref)
    if ref is R.NOVALUE:
        return "<no value>"
    if hasattr(ref, "x"):
        return f"~{float(ref.x)}"
    try:
        from fractions import Fraction
        if isinstance(ref, Fraction):
            return repr(float(ref))
    except Exception:
        pass
    return repr(ref)


class _Quiet(list):
    def append(self, x):
        pass
