"""Shared engine of C14/C15 (and C18's read-only sweep): complete enumeration of model configurations driven through
the public API against the simulated inverter."""
from __future__ import annotations

import asyncio
import itertools

from sim.net import World, DEFAULT_LATENCY
from sim import refdecode as R
from . import common as C
from . import devices
from .common import viol

POWERS = [("003K", 3000), ("015K", 15000), ("025K", 25000), ("29K9", 30000)]
METER = ["basic", "ext", "ext2"]


# Frozen copies (pinned commit) of the model-tag tables: they are the documentation of WHICH models have which blocks.
# The configuration space and the 'supported blocks are present' oracle use these, not the library's live tuples - a
# changed tuple in the library must not silently change what is enumerated.
REF_ET_TAGS = ('ETU', 'ETL', 'ETR', 'BHN', 'EHU', 'BHU', 'EHR', 'BTU', 'ESN', 'EBN', 'EMN', 'SPN', 'ERN', 'ESC', 'HLB', 'HMB',
               'HBB', 'EOA', 'ETT', 'HTA', 'HUB', 'AEB', 'SPB', 'CUB', 'EUB', 'HEB', 'ERB', 'BTT', 'ETF', 'ARB', 'URB', 'EBR',
               'AES', 'HHI', 'ABP', 'EHB', 'HSB', 'HUA', 'CUA', 'ETC', 'BTC', 'BTN')
REF_745 = ('ETT', 'HTA', 'HUB', 'AEB', 'SPB', 'CUB', 'EUB', 'HEB', 'ERB', 'BTT', 'ETF', 'ARB', 'URB', 'EBR',
           'ESN', 'EBN', 'EMN', 'SPN', 'ERN', 'ESC', 'HLB', 'HMB', 'HBB', 'EOA')
REF_DT_TAGS = ('DTU', 'DTS', 'MSU', 'MST', 'MSC', 'DSN', 'DTN', 'DST', 'NSU', 'SSN', 'SST', 'SSX', 'SSY', 'PSB', 'PSC')
REF_ES_TAGS = ('ESU', 'EMU', 'ESA', 'BPS', 'BPU', 'EMJ', 'IJL')


def et_tags(goodwe_model):
    return ["XXX"] + list(REF_ET_TAGS)


def dt_tags(goodwe_model):
    return ["XXX"] + list(REF_DT_TAGS)


def space():
    import goodwe.model as gm
    out = []
    for tag in et_tags(gm):
        for pw in range(len(POWERS)):
            for bat, bat2, meter, mppt, eco, peak in itertools.product((0, 1), (0, 1), (0, 1, 2), (0, 1), (0, 1), (0, 1)):
                out.append(("ET", tag, pw, (bat, bat2, meter, mppt, eco, peak)))
    for tag in dt_tags(gm):
        for pw in (0, 1):
            for meter in (0, 1):
                out.append(("DT", tag, pw, (meter,)))
    for tag in list(REF_ES_TAGS) + ["XXX"]:
        for fw in ("2525B", "04046", "1010E"):
            out.append(("ES", tag, 0, (fw,)))
    return out


def caps_of(flags):
    bat, bat2, meter, mppt, eco, peak = flags
    caps = []
    if bat:
        caps.append("battery")
    if bat2:
        caps.append("battery2")
    if meter >= 1:
        caps.append("meter_ext")
    if meter >= 2:
        caps.append("meter_ext2")
    if mppt:
        caps.append("mppt")
    if eco:
        caps.append("eco_v2")
    if peak:
        caps.append("peak_shaving")
    return tuple(caps)


def make_case(index, seed):
    fam, tag, pw, flags = SPACE()[index]
    return {"family": fam, "tag": tag, "power": pw, "flags": list(flags), "transport": "udp" if index % 3 else "tcp",
            "seed": (seed * 7919 + index) & 0xFFFF, "battery_modes": [[1, 1, 1], [1, 0, 1], [0, 1, 1], [0, 0, 1]][index % 4],
            "lossy": index % 5 == 4,
            # GoodWe devices are known to announce a wrong Modbus/TCP message length (the library ignores the field):
            # a full-length answer stays a full-length answer whatever that header field says
            "mbap_len": [None, "data", None, "six"][(index // 3) % 4] if index % 3 == 0 and fam != "ES" else None}


_SP = []


def SPACE():
    if not _SP:
        _SP.extend(space())
    return _SP


def run_config(case, monitor_reads=False, calls=None):
    """Runs read_device_info + three read_runtime_data (or the given call list) against the configured device.
    Returns dict with observations."""
    goodwe, gp, ge = C.goodwe_mods()
    fam = case["family"]
    tr = case["transport"] if fam != "ES" else "udp"
    pcode, power = POWERS[case["power"]]
    serial = ("9" + pcode + case["tag"] + "000W0001")[:16]
    world = World(max_steps=1_000_000)
    if fam == "ET":
        dev = devices.make_et(serial=serial, rated_power=power, caps=caps_of(case["flags"]), seed=case["seed"],
                              fill="hash", comm_addr=None, battery_mode=1)
        inv = goodwe.ET(C.HOST, C.port_of(tr), 0, 1, 2)
    elif fam == "DT":
        dev = devices.make_dt(serial=serial, meter=bool(case["flags"][0]), seed=case["seed"], fill="hash", comm_addr=None)
        inv = goodwe.DT(C.HOST, C.port_of(tr), 0, 1, 2)
        if case["seed"] % 4 == 0:
            dev.set_reg(30209, 0)   # meter served, its communication status register reads 0: served is served
    else:
        dev = devices.make_es(serial=serial, firmware=case["flags"][0], seed=case["seed"], fill="hash")
        inv = goodwe.ES(C.HOST, C.port_of(tr), 0, 1, 2)
    world.net.add_device(C.HOST, C.port_of(tr), dev)
    if case.get("mbap_len"):
        dev.mbap_len = case["mbap_len"]
    if case.get("keep_alive"):
        inv.set_keep_alive(True)
    if case.get("dup_exc"):
        world.net.dup_exceptions = 3 * DEFAULT_LATENCY
    obs = {"world": world, "dev": dev, "inv": inv, "family": fam, "transport": tr, "serial": serial, "polls": [],
           "short_reads": [], "info": None}

    if monitor_reads and hasattr(gp, "ProtocolResponse") and hasattr(gp.ProtocolResponse, "read"):
        orig_read = gp.ProtocolResponse.read

        def read(self, size):
            pos = self._bytes.tell() if hasattr(self, "_bytes") else None
            data = orig_read(self, size)
            if len(data) < size:
                cmd = getattr(self, "command", None)
                obs["short_reads"].append({"pos": pos, "size": size, "got": len(data),
                                           "first": getattr(cmd, "first_address", None),
                                           "count": getattr(cmd, "value", None)})
            return data

        gp.ProtocolResponse.read = read

    async def main():
        obs["info"] = await C.do_call(world, "read_device_info", inv.read_device_info)
        if obs["info"]["outcome"] != "result":
            return
        if case["seed"] % 3 == 2:
            # ... or the refresh FAILS (inverter silent for all retries): the object keeps what it knew
            world.net.begin_script([], {"k": "drop"})
            await C.do_call(world, "read_device_info", inv.read_device_info)
            world.net.begin_script([], {"k": "ok"})
        if case["seed"] % 3 == 1:
            # applications re-read the device info (reconnect, periodic refresh): same inverter, same outcome
            again = await C.do_call(world, "read_device_info", inv.read_device_info)
            if again["outcome"] != "result":
                obs["info"] = again
                return
        for j in range(3):
            if fam == "ET":
                dev.set_reg(35184, case["battery_modes"][j])
            if case.get("lossy"):
                world.net.begin_script([{"k": "drop"}], {"k": "ok"})
            if monitor_reads and fam == "ET" and j == 0 and case["seed"] % 5 == 1 and case.get("fail_request") is None and not case.get("lossy"):
                # one request of the FIRST poll (the 2nd..4th: an optional block) is answered SLAVE DEVICE BUSY: the
                # call may fail, it must not report values for a block it did not get
                world.net.begin_script([{"k": "ok"}] * (1 + case["seed"] % 3) + [{"k": "exc", "code": 6}], {"k": "ok"})
            if case.get("fail_request") is not None and j == 0:
                # the n-th request of the FIRST poll is lost together with all its retransmissions
                world.net.begin_script([{"k": "ok"}] * case["fail_request"] + [{"k": "drop"}] * 3, {"k": "ok"})
            req0 = len(dev.requests)
            rec = await C.do_call(world, "read_runtime_data", inv.read_runtime_data)
            sensors = inv.sensors()
            obs["polls"].append({"rec": rec, "sensor_ids": [s.id_ for s in sensors], "sensors": sensors,
                                 "requests": dev.requests[req0:], "short_reads": list(obs["short_reads"]),
                                 "battery_mode": case["battery_modes"][j] if fam == "ET" else None})
            obs["short_reads"].clear()
        if monitor_reads:
            # single reads of sensors that cannot be read on their own (formulas, values spread over blocks)
            ids = [s.id_ for s in inv.sensors() if type(s).__name__ in ("Calculated", "EnumBitmap22", "EnumCalculated")]
            step = max(1, len(ids) // 4)
            obs["singles"] = []
            # ... and of one-byte sensors (half a register: the request must still fetch the register)
            onebyte = [s.id_ for s in inv.sensors() if type(s).__name__ in ("Byte", "ByteH", "ByteL", "Enum", "EnumH", "EnumL")]
            for sid in ids[case["seed"] % 3::step][:4] + onebyte[case["seed"] % 2::max(1, len(onebyte) // 2)][:2]:
                req0 = len(dev.requests)
                rec = await C.do_call(world, f"read_sensor:{sid}", lambda: inv.read_sensor(sid))
                obs["singles"].append({"id": sid, "rec": rec, "requests": dev.requests[req0:],
                                       "short_reads": list(obs["short_reads"]), "sensors": inv.sensors()})
                obs["short_reads"].clear()

    status, _ = C.run_world(world, main())
    obs["status"] = status
    return obs
