"""C13 - derived and label sensors always agree with the raw sensors of the same read (DESIGN 6/C13)."""
from __future__ import annotations

from . import c12 as _c12
from .c12 import n_cases, make_case, simplify, warm, SHRINK_FROZEN, exhaustive, BATCH  # noqa: F401

ID = "C13"
LEVEL = "exploration"
RULE = ("Same polling workload as C12 (register-evolving peer; step mode drives every 16-bit code word through all "
        "65536 values in thorough, 2048 in quick; plus zero / FF / boundary / random contents).  Oracle, computed from "
        "the DEVICE's registers: '<x>_label' == table lookup of the code; bitmap labels == names of exactly the set "
        "bits (4-byte all-ones = none; two-word bitmaps: high word x 65536 + low word); ET ppv = sum of the PV power "
        "registers of the strings whose ppvN are in the same result (a total that also adds the registers of strings "
        "the model does not list gets the key suffix ':hidden-strings', a listed known finding), grid_in_out thresholds (-90/90) and label, house_consumption = ppv + pbattery1 - "
        "active_power; DT ppvN/pgridN = round(V x I), ppv = sum of the listed ppvN; plus, for EVERY pair of ids <x> / "
        "<x>_label in one result, label == table lookup of the code reported under <x>; ES ppv1/ppv2/ppv, ibattery1/pbattery1 sign rule "
        "(battery mode 3), pgrid sign rule (grid mode 2), plant_power, house_consumption - formulas as written in the "
        "comments next to the tables.  Rounded products may differ by the last rounding step (|lib - exact| <= 0.5 "
        "per rounded term).  Non-trivial: every poll; distinct: (configuration, fill mode, k).")
ASSUMPTIONS = [
    "formulas are taken from the comments in the sensor tables and the statement; label tables (goodwe.const) are "
    "specification",
    "rounded products are compared with a tolerance of half a unit per rounded term",
]
LEVEL_TEXT = ("Exploration with exhaustive coverage of each 16-bit code word (thorough) realised as a deterministic "
              "device-evolution workload on the simulator; derived values are recomputed from the device's registers "
              "by an independent implementation of the documented formulas.")
LEVEL_NOTE = "Trusted: reference formulas (props/decoding.py), device register file."
TECHNIQUE = "deterministic simulation: polling a register-evolving peer model; derived values recomputed from registers"


def run_case(case):
    return _c12.run_case(case, oracle="derived")
