"""C07 - a response split into two fragments is reassembled exactly (DESIGN 6/C07)."""
from __future__ import annotations

import asyncio

from sim.net import World, DEFAULT_LATENCY
from sim.device import SimInverter
from . import common as C
from .common import EPS, viol

ID = "C07"
LEVEL = "fault_enumeration"
BATCH = 16
RULE = ("One read per run (Modbus RTU/UDP, Modbus/TCP, AA55 runtime block or 011A read), keep-alive on/off.  "
        "Positive part (enumerated): EVERY split point s of the answer with a first piece >= 5 (RTU) / 9 (TCP, AA55) "
        "bytes x second piece {right behind the first, mid, just before tx+timeout}: must succeed with ONE "
        "transmission and return exactly the unsplit frame.  Negative part (seeded): first piece followed by "
        "remainder -k/+k bytes, bit-flipped remainder, whole answer to another request, garbage of equal length, or "
        "nothing and then a retransmission whose answer is split at the complementary point: a success must be a "
        "whole answer of ONE transmission (payload words carry the transmission number).  Non-trivial: every run "
        "(each delivers a fragment).  Distinct: (framing, frame length, split point, timing class, follow-up class, "
        "keep-alive, outcome).")
ASSUMPTIONS = [
    "'within the timeout' is taken as before transmission time + timeout, which implies before first piece + timeout",
    "TCP pieces due at the same instant are one recv(); UDP datagrams are delivered one per loop iteration",
]
LEVEL_TEXT = ("Fault enumeration over the complete set of split points of representative (quick) / all (thorough) "
              "frame lengths, executed through the real datagram_received/data_received callbacks and timers on the "
              "simulated loop; seeded negative scripts for the never-mix clauses.")
LEVEL_NOTE = "Trusted: transport model; the peer's stamping makes pieces attributable to transmissions."
TECHNIQUE = "deterministic simulation, enumerated fragment split points x timings + seeded malformed follow-ups"

FRAMINGS = ["rtu", "tcp", "aa55"]
SIZES = {"quick": {"rtu": [1, 13, 125], "tcp": [1, 13, 125], "aa55": [1, 40, 255]},
         "thorough": {"rtu": list(range(1, 126)), "tcp": list(range(1, 126)), "aa55": list(range(1, 256))}}
N_NEG = {"quick": 10_000, "thorough": 1_000_000}
HDR = {"rtu": 5, "tcp": 9, "aa55": 9}
TAUS = [1.0, 0.5, 2.0]
_SPACE = {}


def frame_len(fr, size):
    if fr == "rtu":
        return 7 + 2 * size
    if fr == "tcp":
        return 9 + 2 * size
    return 9 + size


def _space(tier):
    if tier not in _SPACE:
        out = []
        for fr in FRAMINGS:
            for size in SIZES[tier][fr]:
                L = frame_len(fr, size)
                for s in range(HDR[fr], L):
                    for tm in ("behind", "mid", "edge"):
                        for ka in (False, True):
                            out.append((fr, size, s, tm, ka))
                # two consecutive fragmented requests on one object: the second one's tail arrives more than one
                # timeout after the FIRST request's fragment (a timer left over from it would hit the second)
                for s in sorted({HDR[fr], (HDR[fr] + L) // 2, L - 1}):
                    if HDR[fr] <= s < L:
                        for ka in (False, True):
                            out.append((fr, size, s, "pair", ka))
        _SPACE[tier] = out
    return _SPACE[tier]


def warm(tier):
    _space(tier)


def n_cases(tier):
    return len(_space(tier)) + N_NEG[tier]


def exhaustive(tier):
    return False


def _cmd(fr, size, rnd):
    if fr in ("rtu", "tcp"):
        return {"op": "read", "reg": rnd.randrange(0, 65000), "count": size}
    if size % 2 == 0 and size <= 250 and rnd.random() < 0.3:
        return {"op": "aa55read", "reg": rnd.randrange(0, 60000), "count": size // 2}
    return {"op": "aa55", "payload": "010600", "rtype": "0186", "blocklen": size}


def make_case(tier, seed, index):
    case = _make_case(tier, seed, index)
    case["ipv6"] = index % 6 == 5
    return case


def _make_case(tier, seed, index):
    rnd = C.rng_for(seed, ID, index)
    space = _space(tier)
    if index < len(space):
        fr, size, s, tm, ka = space[index]
        tau = TAUS[index % len(TAUS)]
        if tm == "pair":
            lat = DEFAULT_LATENCY
            cmd = _cmd(fr, size, rnd)
            cmd2 = dict(cmd)
            if "reg" in cmd2:
                cmd2["reg"] = (cmd2["reg"] + 300) & 0xFFFF
            return {"kind": "pos", "framing": fr, "size": size, "cmd": cmd, "cmd2": cmd2, "keep_alive": ka,
                    "timeout": tau, "retries": rnd.choice([0, 1, 3]), "timing": tm,
                    "faults": [{"k": "frag", "s": s, "d1": lat, "d2": 2 * lat},
                               {"k": "frag", "s": s, "d1": 0.625 * tau, "d2": tau - EPS}]}
        d1 = rnd.choice([DEFAULT_LATENCY, tau / 4])
        d2 = {"behind": d1, "mid": tau / 2, "edge": tau - EPS}[tm]
        if d2 < d1:
            d1 = DEFAULT_LATENCY
        return {"kind": "pos", "framing": fr, "size": size, "cmd": _cmd(fr, size, rnd), "keep_alive": ka,
                "timeout": tau, "retries": rnd.choice([0, 1, 3]), "timing": tm, "aa55_words": index % 3 == 1,
                "faults": [{"k": "frag", "s": s, "d1": d1, "d2": d2}]}
    fr = rnd.choice(FRAMINGS)
    size = rnd.choice([1, 2, 3, 5, 8, 13, 30, 60, 125]) if fr != "aa55" else rnd.choice([1, 2, 4, 8, 16, 40, 100, 255])
    L = frame_len(fr, size)
    tau = rnd.choice(TAUS)
    r = rnd.choice([1, 2, 3])
    s = rnd.randint(HDR[fr], L - 1)
    d1 = rnd.choice([DEFAULT_LATENCY, tau / 4])
    d2 = rnd.choice([d1, tau / 2, tau - EPS, tau + EPS, 1.5 * tau])
    cls = rnd.choice(["minus", "plus", "flip", "other", "garbage", "lone_refrag", "lone_refrag", "lone_ok", "late_rem",
                      "late_rem", "two_req", "two_req", "collide", "late_head", "late_head", "idle_head"])
    rem = L - s
    cmd = _cmd(fr, size, rnd)
    if cls == "minus":
        k = rnd.randint(1, min(3, rem))
        faults = [{"k": "frag_then", "s": s, "d1": d1, "d2": d2, "what": {"minus": k}}]
    elif cls == "plus":
        faults = [{"k": "frag_then", "s": s, "d1": d1, "d2": d2,
                   "what": {"plus": bytes(rnd.getrandbits(8) for _ in range(rnd.choice([1, 3]))).hex()}}]
    elif cls == "flip":
        faults = [{"k": "frag_then", "s": s, "d1": d1, "d2": d2, "what": {"flip": rnd.randrange(0, rem * 8)}}]
    elif cls == "other":
        if cmd["op"] == "read":
            other = {"reg": (cmd["reg"] + rnd.randint(1, 200)) & 0xFFFF}
            faults = [{"k": "frag_then", "s": s, "d1": d1, "d2": d2, "what": {"other": other}}]
        else:
            faults = [{"k": "frag_then", "s": s, "d1": d1, "d2": d2,
                       "what": {"raw": bytes(rnd.getrandbits(8) for _ in range(L)).hex()}}]
    elif cls == "garbage":
        faults = [{"k": "frag_then", "s": s, "d1": d1, "d2": d2,
                   "what": {"raw": bytes(rnd.getrandbits(8) for _ in range(rem)).hex()}}]
    elif cls == "collide":
        # a corrupted remainder of the SAME length that keeps the checksum valid: CRC-16 is linear (XOR of 03 40 01
        # anywhere leaves it unchanged), the AA55 checksum is a plain sum (swapping two bytes leaves it unchanged)
        pay_lo, pay_hi = max(s, (5 if fr == "rtu" else 9 if fr == "tcp" else 7)), L - (0 if fr == "tcp" else 2)
        if pay_hi - pay_lo >= 3:
            i = rnd.randint(pay_lo, pay_hi - 3) - s
            ops = [["xor", i, "034001"]] if fr != "aa55" else [["swap", i, i + 1 + rnd.randrange(2)]]
            faults = [{"k": "frag_then", "s": s, "d1": d1, "d2": max(d1, min(d2, tau - EPS)), "what": {"mut": ops}}]
        else:
            cls = "flip"
            faults = [{"k": "frag_then", "s": s, "d1": d1, "d2": d2, "what": {"flip": rnd.randrange(0, rem * 8)}}]
    elif cls == "late_head":
        # the FIRST piece of the answer to transmission 1 is late: it arrives when the retransmission is already
        # waiting for its own answer, which then comes in two pieces, in time, the first as long as what the stale
        # head is missing
        s = rnd.randint(HDR[fr], max(HDR[fr], L - HDR[fr]))
        lat = DEFAULT_LATENCY
        # ... or shorter than that (an implementation that collects more than two pieces would append it)
        s2 = max(HDR[fr], min(L - 1, L - s))
        if rnd.random() < 0.4 and s2 - HDR[fr] >= 2:
            s2 = rnd.randint(HDR[fr], s2 - 1)
        faults = [{"k": "lonefrag", "s": s, "d1": tau + 2 * lat},
                  {"k": "frag", "s": s2, "d1": 4 * lat, "d2": rnd.choice([8 * lat, tau / 2])}]
    elif cls == "late_rem":
        # the remainder arrives after the timeout, i.e. while a retransmission is already waiting for ITS answer,
        # which is lost, prompt or late itself
        faults = [{"k": "frag", "s": s, "d1": d1, "d2": rnd.choice([tau + d1 + EPS, tau + d1, 2 * tau, tau + EPS])},
                  rnd.choice([{"k": "drop"}, {"k": "ok", "d": tau / 2}, {"k": "ok", "d": tau - EPS}])]
    elif cls == "idle_head":
        # request 1 is answered; the first piece of a duplicate of that answer arrives while the kept-open socket is
        # IDLE; request 2 (same shape) is answered in two pieces, the first as long as what the stale piece is missing
        s2 = L - s
        first = {"k": "ok", "d": DEFAULT_LATENCY, "then": [{"ev": "data", "what": "prefix", "s": s, "d": 4 * DEFAULT_LATENCY}]}
        second = {"k": "frag", "s": max(1, min(s2, L - 1)), "d1": DEFAULT_LATENCY, "d2": rnd.choice([2 * DEFAULT_LATENCY, tau / 2])}
        faults = [first, second]
    elif cls == "two_req":
        # request 1: a truncated copy followed by the whole answer (succeeds, a fragment may stay stored);
        # request 2 (same length): answer split so that its first piece has exactly the stale fragment's missing length
        s2 = L - s
        first = {"k": "frag_then", "s": s, "d1": d1, "d2": rnd.choice([d1, tau / 2]), "what": {"whole": 1}}
        if HDR[fr] <= s2 <= L - 1:
            second = {"k": "frag", "s": s2, "d1": DEFAULT_LATENCY, "d2": rnd.choice([2 * DEFAULT_LATENCY, tau / 2])}
        else:
            second = {"k": "frag", "s": max(1, min(s2, L - 1)), "d1": DEFAULT_LATENCY, "d2": 2 * DEFAULT_LATENCY}
        faults = [first, second]
    else:
        # lone first piece; the retransmission's answer is split so that ITS first piece has exactly the length
        # that is still missing from the stale fragment (a stale stored fragment would 'fit')
        s2 = L - s
        faults = [{"k": "lonefrag", "s": s, "d1": d1}]
        if cls == "lone_refrag" and HDR[fr] <= s2 <= L - 1:
            faults.append({"k": "frag", "s": s2, "d1": DEFAULT_LATENCY, "d2": rnd.choice([2 * DEFAULT_LATENCY, tau / 2])})
        elif cls == "lone_refrag":
            # complementary piece shorter than a header: deliver exactly the missing number of bytes first
            faults.append({"k": "frag", "s": max(1, s2), "d1": DEFAULT_LATENCY, "d2": 2 * DEFAULT_LATENCY})
        else:
            faults.append({"k": "ok"})
    case = {"kind": "neg", "framing": fr, "size": size, "cmd": cmd, "keep_alive": rnd.random() < 0.6,
            "timeout": tau, "retries": r, "timing": cls, "faults": faults}
    if cls == "idle_head":
        cmd2 = dict(cmd)
        if "reg" in cmd2:
            cmd2["reg"] = (cmd2["reg"] + 300) & 0xFFFF
        case["cmd2"] = cmd2
        case["keep_alive"] = True
        case["pause"] = 8 * DEFAULT_LATENCY
        case["timing"] = "two_req"   # judged like the two-request class: request 2 returns exactly ITS answer
    if cls == "two_req":
        cmd2 = dict(cmd)
        if "reg" in cmd2:
            cmd2["reg"] = (cmd2["reg"] + 300) & 0xFFFF
        case["cmd2"] = cmd2
        case["keep_alive"] = rnd.random() < 0.8
    return case


SHRINK_FROZEN = ("faults",)


def simplify(case):
    out = []
    if case["retries"] > 1:
        out.append(dict(case, retries=case["retries"] - 1))
    if case["keep_alive"]:
        out.append(dict(case, keep_alive=False))
    return out


def _aa55_block(size):
    def blk(tx):
        return bytes(((j * 7 + tx * 13 + 1) & 0x3F) for j in range(size))  # sum < 0x8000: C02's subject is kept out
    return blk


def run_case(case):
    goodwe, gp, ge = C.goodwe_mods()
    fr = case["framing"]
    tr = "tcp" if fr == "tcp" else "udp"
    tau, r = case["timeout"], case["retries"]
    world = World(faults=case["faults"], max_steps=20_000)
    dev = SimInverter(mode="stamp")
    if case["cmd"]["op"] == "aa55":
        dev.blocks[0x0106] = _aa55_block(case["cmd"]["blocklen"])
    if case.get("aa55_words"):
        # every register / block word holds 0xAA55 (a legal value): wherever the answer is cut in front of a word, the
        # exact remainder starts with the bytes a new frame would start with
        if case["cmd"]["op"] == "aa55":
            n = case["cmd"]["blocklen"]
            dev.blocks[0x0106] = (b"\xaa\x55" * (n // 2 + 1))[:n]
        else:
            dev = SimInverter(mode="file", fill="constw")
            dev.const_word = 0xAA55
    world.net.add_device(C.HOST, C.port_of(tr), dev)
    world.net.add_device(C.HOST6, C.port_of(tr), dev)
    # a sixth of the cases reach the inverter over IPv6 (the sender of a datagram is then a 4-tuple)
    proto = C.make_protocol(tr, tau, r, case["keep_alive"], host=C.HOST6 if case.get("ipv6") else C.HOST)
    state = {}

    async def main():
        state["rec"] = await C.do_execute(world, proto, case["cmd"], "read")
        if case.get("cmd2"):
            if case.get("pause"):
                await asyncio.sleep(case["pause"])
            state["rec2"] = await C.do_execute(world, proto, case["cmd2"], "read2")

    status, _ = C.run_world(world, main())
    net = world.net
    rec = state.get("rec")
    violations = []
    outcome = rec["outcome"] if rec else status
    answers = [a for a in net.answers if a is not None]
    ntx = len(net.transmissions)
    if rec and rec.get("resp") is not None and state.get("rec2") is not None:
        # the caller kept the first response while the second request ran: it is still exactly the bytes it was
        try:
            now = bytes(rec["resp"].raw_data)
        except Exception as e:  # noqa
            now = repr(e).encode()
        if now != rec["raw"]:
            violations.append(viol(f"C07:result-changed-later:{fr}",
                                   f"the response returned for the first request was {rec['raw'].hex()} when it was "
                                   f"returned and is {now.hex()} after the next request on the same object"))
    if case["kind"] == "pos":
        if status != "ok":
            violations.append(viol(f"C07:no-success:{fr}", f"fragmented answer: request did not terminate ({status})"))
        elif outcome != "result":
            violations.append(viol(f"C07:no-success:{fr}",
                                   f"answer of {len(answers[0])} bytes split at {case['faults'][0]['s']} "
                                   f"(second piece {case['timing']}): outcome {outcome}"))
        elif case.get("cmd2"):
            rec2 = state.get("rec2")
            if rec2 is None or rec2["outcome"] != "result":
                violations.append(viol(f"C07:no-success:{fr}", f"second of two consecutive fragmented requests: outcome "
                                       f"{rec2 and rec2['outcome']}"))
            elif ntx != 2:
                violations.append(viol(f"C07:retransmitted:{fr}",
                                       f"two consecutive fragmented requests (split at {case['faults'][0]['s']}): {ntx} "
                                       f"transmissions, expected 2"))
            elif rec["raw"] != net.answers[0] or rec2["raw"] != net.answers[1]:
                violations.append(viol(f"C07:wrong-bytes:{fr}", "two consecutive fragmented requests: wrong bytes returned"))
        else:
            if ntx != 1:
                violations.append(viol(f"C07:retransmitted:{fr}",
                                       f"split at {case['faults'][0]['s']}: {ntx} transmissions, expected 1"))
            if rec["raw"] != net.answers[0]:
                violations.append(viol(f"C07:wrong-bytes:{fr}",
                                       f"split at {case['faults'][0]['s']}: returned {rec['raw'].hex()} != "
                                       f"unsplit {net.answers[0].hex()}"))
    else:
        recs = [x for x in (rec, state.get("rec2")) if x is not None and x["outcome"] == "result"]
        for rr in recs if status == "ok" else []:
            raw = rr["raw"]
            # never combine a stored fragment with data received during a later transmission
            dls = [d for d in net.deliveries if d["kind"] == "data" and d["status"] == "delivered"]
            singles_ = {d["data"] for d in dls}
            if raw not in singles_:
                for a in dls:
                    for b in dls:
                        if a is not b and a["t_run"] <= b["t_run"] and a["data"] + b["data"] == raw \
                                and a["tx"] != b["tx"] and raw not in {x for x in net.answers if x is not None}:
                            # whenever they were handed to the protocol (a transport may hold data back while reading is
                            # paused): the pieces answer DIFFERENT transmissions and the result is nobody's answer
                            violations.append(viol(f"C07:mixed-transmissions:{fr}",
                                                   f"{case['timing']}: result {raw.hex()} is a piece of the answer to "
                                                   f"transmission {a['tx']} followed by a piece of the answer to "
                                                   f"transmission {b['tx']}"))
                            break
                        if a is not b and a["t_run"] <= b["t_run"] and a["data"] + b["data"] == raw:
                            crossed = [t["i"] for t in net.transmissions if a["t_run"] < t["t"] <= b["t_run"]]
                            if crossed:
                                violations.append(viol(f"C07:stale-fragment:{fr}",
                                                       f"{case['timing']}: result {raw.hex()} was composed of a piece "
                                                       f"received at t={a['t_run']} and a piece received at "
                                                       f"t={b['t_run']} although transmission(s) {crossed} were made "
                                                       f"in between"))
                            break
                    if violations:
                        break
        if case["timing"] == "late_head" and status == "ok":
            # transmission 2 is answered in two pieces in time: success, no third transmission, exactly its bytes
            if outcome != "result" or ntx != 2 or rec["raw"] != net.answers[1]:
                violations.append(viol(f"C07:stale-late-head:{fr}",
                                       f"a late first fragment of the answer to transmission 1 arrived while transmission "
                                       f"2 was waiting; the answer to transmission 2 (two pieces, in time) was not "
                                       f"returned: outcome {outcome}, {ntx} transmissions"))
        if status == "ok" and outcome == "result":
            raw = rec["raw"]
            whole = {a for a in answers}
            # a datagram/segment delivered whole that validates on its own (e.g. the answer to another request,
            # which the wire protocol cannot tell apart) is not 'built from the fragment'
            singles = {d["data"] for d in net.deliveries if d["kind"] == "data" and d["status"] == "delivered"}
            ok = raw in whole or raw in singles
            if not ok and fr == "tcp":
                # no checksum on Modbus/TCP: a success may be built from pieces of ONE transmission
                by_tx = {}
                for d in net.deliveries:
                    if d["kind"] == "data" and d["status"] in ("delivered", "coalesced"):
                        by_tx.setdefault(d["tx"], []).append(d["data"])
                for i, pieces in by_tx.items():
                    cat = b"".join(pieces)
                    if raw == cat or raw in pieces or any(raw == b"".join(pieces[:n]) for n in range(1, len(pieces) + 1)):
                        ok = True
                        break
            chance = False
            if not ok and fr != "tcp" and case["timing"] in ("garbage", "other", "flip") and answers \
                    and len(raw) == len(answers[0]):
                # a remainder of the right length that is NOT the real one but happens to carry a valid checksum (one in
                # 65536 random remainders does): the same phenomenon as the constructed collisions
                from sim import codec
                try:
                    chance = codec.ref_validate(fr, codec.parse_request(net.transmissions[0]["data"], tr), raw)
                except Exception:  # noqa
                    chance = False
            if not ok and (case["timing"] == "collide" or chance):
                violations.append(viol(f"C07:checksum-collision:{fr}",
                                       f"first fragment + a corrupted remainder of equal length whose corruption keeps "
                                       f"the checksum valid was accepted: {raw.hex()} (real answer {answers[0].hex()})"))
            elif not ok:
                violations.append(viol(f"C07:mixed:{fr}",
                                       f"{case['timing']}: success with {raw.hex()} which is not the whole answer of "
                                       f"one transmission (answers: {[a.hex() for a in answers]})"))
    sig = (fr, case["size"], case["faults"][0].get("s"), case["timing"], case["keep_alive"], outcome, ntx)
    probes = {"composed": 1 if (outcome == "result" and any(f["k"] in ("frag", "frag_then") for f in case["faults"])) else 0,
              "neg_success": 1 if (case["kind"] == "neg" and outcome == "result") else 0,
              "kind:" + case["kind"]: 1}
    return C.package(world, case, violations, sig, True, probes)


def evidence_extra(tier):
    return {"systematic_cases": len(_space(tier)), "seeded_cases": N_NEG[tier],
            "systematic_part": "every split point of every frame length of the tier x 3 timings x keep-alive; consecutive fragmented pairs"}
