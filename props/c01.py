"""C01 - only validated response frames are ever delivered as results (DESIGN 6/C01)."""
from __future__ import annotations

import asyncio

from sim.net import World, DEFAULT_LATENCY, mutate
from sim.device import SimInverter
from sim import codec
from . import common as C
from .common import EPS, viol

ID = "C01"
LEVEL = "fault_enumeration"
BATCH = 16
RULE = ("One request per run (read counts 1..125, write, write-multi; RTU/UDP, Modbus/TCP, AA55 read / runtime / "
        "settings / device-info / write); the answer to the first transmission(s) is a CORRUPTION of the conforming "
        "answer: single-bit flip, truncation, trailing bytes, checksum off by a delta, checksum-valid frame of another "
        "function / count / register / value / AA55 response type, random garbage, short garbage, header edits with "
        "recomputed checksum, first piece + corrupted remainder; later transmissions get the clean answer.  "
        "Systematic part: EVERY truncation and EVERY single-bit flip of the conforming answer for the tier's "
        "representative commands.  Oracle: a successful result must be accepted by an independent reference "
        "validator for that very request; outcome in {result, rejected, failed}; nothing reaches the loop's "
        "exception handler.  Non-trivial: a corrupted answer was actually delivered; distinct: (framing, command "
        "shape, mutation class, mutated position bucket, outcome).")
ASSUMPTIONS = [
    "reference validator (sim/codec.ref_validate) encodes exactly the clauses of the statement: function code, "
    "byte count = 2 x count, length >= announced, echo of register and value/count, checksum on RTU/AA55; header "
    "magic, comm address and MBAP fields are not demanded",
    "byte-space coverage is input generation carried by the network fault layer (DESIGN 6, note on fit)",
]
LEVEL_TEXT = ("Fault enumeration: corruption is a network fault applied to the peer's conforming answer in flight; "
              "every truncation and single-bit flip is enumerated for representative commands, the rest is seeded.  "
              "The check goes through the real callbacks, the fragment store and the retry logic, so a validator "
              "that raises an undocumented exception shows up as a loop exception or an undocumented outcome.")
LEVEL_NOTE = "Trusted: the independent codec (cross-checked against the repository's recorded frames by selftest)."
TECHNIQUE = "deterministic simulation with enumerated/seeded in-flight corruption; independent reference validator"

REPR = {
    "quick": [("rtu", {"op": "read", "reg": 35100, "count": 2}), ("rtu", {"op": "write", "reg": 47510, "value": -3}),
              ("tcp", {"op": "read", "reg": 35100, "count": 2}), ("tcp", {"op": "wmulti", "reg": 47515, "hex": "0102030405060708"}),
              ("aa55", {"op": "aa55", "payload": "010200", "rtype": "0182", "blocklen": 5}),
              ("aa55", {"op": "aa55read", "reg": 1793, "count": 2})],
    "thorough": [("rtu", {"op": "read", "reg": 35100, "count": c}) for c in (1, 2, 13, 60, 125)] +
                [("rtu", {"op": "write", "reg": 47510, "value": v}) for v in (0, -3, 0x7FFF)] +
                [("rtu", {"op": "wmulti", "reg": 47515, "hex": "0102030405060708"})] +
                [("tcp", {"op": "read", "reg": 35100, "count": c}) for c in (1, 2, 13, 60, 125)] +
                [("tcp", {"op": "write", "reg": 47510, "value": v}) for v in (0, -3, 0x7FFF)] +
                [("tcp", {"op": "wmulti", "reg": 47515, "hex": "0102030405060708"})] +
                [("aa55", {"op": "aa55", "payload": "010200", "rtype": "0182", "blocklen": n}) for n in (0, 5, 64, 200)] +
                [("aa55", {"op": "aa55", "payload": "010600", "rtype": "0186", "blocklen": 142}),
                 ("aa55", {"op": "aa55", "payload": "010900", "rtype": "0189", "blocklen": 86}),
                 ("aa55", {"op": "aa55read", "reg": 1793, "count": 4}),
                 ("aa55", {"op": "aa55write", "reg": 0x560, "value": 80}),
                 ("aa55", {"op": "aa55wmulti", "reg": 1793, "hex": "0000173b0064ff7f"})],
}
N_RANDOM = {"quick": 40_000, "thorough": 1_000_000}
_SPACE = {}


def answer_len(fr, cmd):
    op = cmd["op"]
    if fr == "rtu":
        return 7 + 2 * cmd["count"] if op == "read" else 10
    if fr == "tcp":
        return 9 + 2 * cmd["count"] if op == "read" else 12
    if op == "aa55":
        return 9 + cmd["blocklen"]
    if op == "aa55read":
        return 9 + 2 * cmd["count"]
    return 10


def _space(tier):
    if tier not in _SPACE:
        out = []
        for fr, cmd in REPR[tier]:
            L = answer_len(fr, cmd)
            for n in range(0, L):
                out.append((fr, cmd, ["trunc", n]))
            for bit in range(L * 8):
                out.append((fr, cmd, ["flip", bit]))
        _SPACE[tier] = out
    return _SPACE[tier]


def warm(tier):
    _space(tier)


def n_cases(tier):
    return len(_space(tier)) + N_RANDOM[tier]


def random_cmd(rnd):
    fr = rnd.choice(["rtu", "tcp", "aa55"])
    if fr in ("rtu", "tcp"):
        op = rnd.choice(["read", "read", "write", "wmulti"])
        if op == "read":
            cmd = {"op": "read", "reg": rnd.randrange(65536 - 125), "count": rnd.choice([1, 2, 3, 7, 16, 45, 61, 100, 125])}
        elif op == "write":
            cmd = {"op": "write", "reg": rnd.randrange(65536), "value": rnd.choice([0, 1, -1, -32768, 32767, rnd.randrange(-32768, 32768)])}
        else:
            cmd = {"op": "wmulti", "reg": rnd.randrange(65000),
                   "hex": bytes(rnd.getrandbits(8) for _ in range(2 * rnd.choice([1, 2, 4, 6, 20]))).hex()}
    else:
        op = rnd.choice(["aa55", "aa55", "aa55read", "aa55write", "aa55wmulti"])
        if op == "aa55":
            p, t = rnd.choice([("010200", "0182"), ("010600", "0186"), ("010900", "0189")])
            cmd = {"op": "aa55", "payload": p, "rtype": t, "blocklen": rnd.choice([0, 1, 8, 63, 64, 86, 142, 255, 254, 253]),
                   "fill": rnd.choice([None, None, "ff", "high"])}
        elif op == "aa55read":
            cmd = {"op": "aa55read", "reg": rnd.randrange(60000), "count": rnd.choice([1, 2, 4, 6, 60])}
        elif op == "aa55write":
            cmd = {"op": "aa55write", "reg": rnd.randrange(60000), "value": rnd.randrange(0, 32768)}
        else:
            cmd = {"op": "aa55wmulti", "reg": rnd.randrange(60000), "hex": bytes(rnd.getrandbits(8) for _ in range(8)).hex()}
    return fr, cmd


def random_corruption(rnd, fr, cmd, tau):
    L = answer_len(fr, cmd)
    d = rnd.choice([DEFAULT_LATENCY, tau / 2, tau - EPS])
    kind = rnd.choice(["flip", "flip2", "trunc", "extend", "badsum", "foreign", "garbage", "short", "hdr_fix",
                       "frag_corrupt", "set_fix", "len_fix", "frag_clean"])
    fix = ["fixcrc_rtu"] if fr == "rtu" else (["fixsum_aa55"] if fr == "aa55" else None)
    if kind == "flip":
        return kind, {"k": "mut", "ops": [["flip", rnd.randrange(L * 8)]], "d": d}
    if kind == "flip2":
        return kind, {"k": "mut", "ops": [["flip", rnd.randrange(L * 8)], ["flip", rnd.randrange(L * 8)]], "d": d}
    if kind == "trunc":
        return kind, {"k": "mut", "ops": [["trunc", rnd.randrange(0, L)]], "d": d}
    if kind == "extend":
        return kind, {"k": "mut", "ops": [["extend", bytes(rnd.getrandbits(8) for _ in range(rnd.choice([1, 2, 5]))).hex()]], "d": d}
    if kind == "badsum":
        if fr == "tcp":
            return kind, {"k": "mut", "ops": [["add", 8, rnd.choice([1, 2, 254, 255])]], "d": d}
        return kind, {"k": "mut", "ops": [["add", rnd.choice([-1, -2]), rnd.choice([1, 2, 255, 128])]], "d": d}
    if kind == "foreign":
        if fr == "aa55":
            return kind, {"k": "foreign", "req": {"cmd": rnd.choice([0x0102, 0x0106, 0x0109, 0x0239, 0x0335]),
                                                  "payload": ""}, "d": d}
        ch = rnd.choice(["fc", "count", "reg", "value"])
        if ch == "fc":
            return kind, {"k": "foreign", "req": {"fc": rnd.choice([3, 6, 16])}, "d": d}
        if ch == "count":
            return kind, {"k": "foreign", "req": {"count": rnd.choice([1, 2, 3, 124, 125, cmd.get("count", 1) + 1])}, "d": d}
        if ch == "reg":
            return kind, {"k": "foreign", "req": {"reg": rnd.randrange(65536)}, "d": d}
        return kind, {"k": "foreign", "req": {"value": rnd.randrange(65536)}, "d": d}
    if kind == "garbage":
        return kind, {"k": "garbage", "n": rnd.choice([5, 9, 10, 12, 30, L]), "seed": rnd.randrange(1 << 30), "d": d}
    if kind == "short":
        return kind, {"k": "garbage", "n": rnd.randint(1, 8), "seed": rnd.randrange(1 << 30), "d": d}
    if kind == "hdr_fix":
        ops = [["set", rnd.randrange(0, min(L, 12)), rnd.getrandbits(8)]]
        if fix:
            ops.append(fix)
        return kind, {"k": "mut", "ops": ops, "d": d}
    if kind == "set_fix":
        ops = [["set", rnd.randrange(0, L), rnd.getrandbits(8)]]
        if fix:
            ops.append(fix)
        return kind, {"k": "mut", "ops": ops, "d": d}
    if kind == "len_fix":
        # length/byte-count field edited, checksum recomputed
        idx = 4 if fr == "rtu" else (8 if fr == "tcp" else 6)
        ops = [["add", idx, rnd.choice([1, 2, 254, 255])]]
        if rnd.random() < 0.5:
            ops.append(["extend", "0000"])
        if fix:
            ops.append(fix)
        return kind, {"k": "mut", "ops": ops, "d": d}
    s = rnd.randint(min(5 if fr == "rtu" else 9, L - 1), L - 1) if L > 1 else 1
    if kind == "frag_clean":
        # the conforming answer in two pieces: what is delivered as result must still be the validated frame
        return kind, {"k": "frag", "s": s, "d1": DEFAULT_LATENCY, "d2": d}
    return kind, {"k": "frag_then", "s": s, "d1": DEFAULT_LATENCY, "d2": d,
                  "what": rnd.choice([{"flip": rnd.randrange(1 << 12)}, {"minus": 1}, {"plus": "00"}])}


def make_case(tier, seed, index):
    rnd = C.rng_for(seed, ID, index)
    space = _space(tier)
    if index < len(space):
        fr, cmd, op = space[index]
        return {"kind": "sweep", "framing": fr, "cmd": cmd, "mclass": op[0], "retries": index % 2, "timeout": 1.0,
                "keep_alive": bool((index // 2) % 2), "comm_addr": 0xF7,
                "faults": [{"k": "mut", "ops": [op], "d": DEFAULT_LATENCY}]}
    fr, cmd = random_cmd(rnd)
    tau = rnd.choice([0.5, 1.0])
    r = rnd.choice([0, 1, 2, 3])
    faults = []
    classes = []
    for _ in range(rnd.randint(1, r + 1)):
        k, f = random_corruption(rnd, fr, cmd, tau)
        classes.append(k)
        faults.append(f)
    case = {"kind": "random", "framing": fr, "cmd": cmd, "mclass": "+".join(classes), "retries": r, "timeout": tau,
            "keep_alive": rnd.random() < 0.5, "comm_addr": rnd.choice([0xF7, 0x7F, 0, 1, 255, rnd.randrange(256)]),
            "faults": faults}
    if fr in ("rtu", "tcp") and cmd["op"] == "read" and rnd.random() < 0.2:
        # ANOTHER caller's request of a different shape is queued on the same object while this one is in flight, and
        # the answer that arrives is well-formed for that other request (not for this one)
        n2 = cmd["count"] % 125 + 1
        reg2 = (cmd["reg"] + 301) & 0xFFFF
        case["queued"] = {"op": "read", "reg": reg2, "count": n2}
        case["faults"] = [{"k": "foreign", "req": {"count": n2, "reg": reg2}, "d": tau / 2}] + faults
        case["mclass"] = "queued-other+" + case["mclass"]
    return case


def simplify(case):
    out = []
    if case.get("queued") is None and case["retries"] > 0:
        out.append(dict(case, retries=0))
    if case["keep_alive"]:
        out.append(dict(case, keep_alive=False))
    return out


def _block(n, seed, fill=None):
    if fill == "ff":
        return b"\xff" * n
    if fill == "high":
        return bytes((0x80 | ((j * 37 + seed) & 0x7F)) for j in range(n))
    return bytes(((j * 37 + seed * 11 + 5) & 0x3F) for j in range(n))


def run_case(case):
    fr = case["framing"]
    tr = "tcp" if fr == "tcp" else "udp"
    tau, r = case["timeout"], case["retries"]
    world = World(faults=case["faults"], max_steps=20_000)
    dev = SimInverter(mode="file", seed=7)
    cmd = case["cmd"]
    if cmd["op"] == "aa55":
        dev.blocks[int(cmd["payload"][:4], 16)] = _block(cmd["blocklen"], 3, cmd.get("fill"))
    world.net.add_device(C.HOST, C.port_of(tr), dev)
    proto = C.make_protocol(tr, tau, r, case["keep_alive"], case["comm_addr"])
    state = {}

    async def other():
        await asyncio.sleep(EPS)
        state["other"] = await C.do_execute(world, proto, case["queued"], "other")

    async def main():
        t = asyncio.ensure_future(other()) if case.get("queued") else None
        state["rec"] = await C.do_execute(world, proto, {k: v for k, v in cmd.items() if k not in ("blocklen", "fill")}, "req")
        if t is not None:
            await t

    status, _ = C.run_world(world, main())
    net = world.net
    violations = []
    rec = state.get("rec")
    outcome = rec["outcome"] if rec else status
    if status != "ok":
        violations.append(viol(f"C01:hang:{fr}", f"request did not terminate: {status}"))
    elif outcome not in ("result", "rejected", "failed", "maxretries"):
        violations.append(viol(f"C01:outcome:{fr}:{outcome}", f"{case['mclass']}: ended with {rec.get('exc')!r}"))
    accepted_mutated = 0
    if rec is not None and outcome == "result":
        D = rec["raw"]
        req = codec.parse_request(net.transmissions[0]["data"], tr)
        if not codec.ref_validate(fr, req, D):
            why = ""
            if fr == "aa55":
                why = ":" + "+".join(codec.ref_invalid_clauses_aa55(req, D))
            violations.append(viol(f"C01:accepted-invalid:{fr}:{cmd['op']}{why}",
                                   f"{case['mclass']}: accepted {D.hex()} as answer to {net.transmissions[0]['data'].hex()}"))
        clean = {a for a in net.answers if a is not None}
        if D not in clean:
            accepted_mutated = 1
    if rec is not None and outcome == "rejected" and fr in ("rtu", "tcp"):
        # 'rejected' is a verdict about a FRAME too: some delivered datagram/segment must be a well-formed exception
        # frame for this request's function (RTU: 7 bytes with a correct CRC) - a damaged one is not a rejection
        req0 = net.transmissions[0]["data"]
        fc = req0[7] if fr == "tcp" else req0[1]

        def is_exc(d):
            if fr == "tcp":
                return len(d) >= 9 and d[7] == (fc | 0x80)
            # the checksum holds - over the canonical 5 bytes (surplus bytes after the frame are tolerated, see C02) or
            # over the whole datagram (the library's reading of an exception frame: everything before the last two bytes)
            return len(d) >= 7 and d[:2] == b"\xaa\x55" and d[3] == (fc | 0x80) and \
                (codec.crc_bytes(d[2:5]) == d[5:7] or codec.crc_bytes(d[2:-2]) == d[-2:])
        got = [d["data"] for d in net.deliveries if d["status"] in ("delivered", "coalesced") and d["kind"] == "data"]
        joined = b"".join(got)
        if not any(is_exc(d) for d in got) and not is_exc(joined):
            violations.append(viol(f"C01:rejected-on-damaged-frame:{fr}",
                                   f"{case['mclass']}: the request ended as rejected ({rec.get('msg')!r}) but nothing that "
                                   f"was delivered is a well-formed exception frame: {[d.hex() for d in got][:3]}"))
    for le in world.loop_exceptions:
        violations.append(viol(f"C01:validator-exception:{fr}:{le['exc_type']}",
                               f"{case['mclass']}: {le['exc']} in a protocol callback"))
        break
    delivered_corrupt = sum(1 for d in net.deliveries if d["status"] in ("delivered", "coalesced") and d["kind"] == "data"
                            and d["data"] not in {a for a in net.answers if a is not None})
    f0 = case["faults"][0]
    pos = None
    if f0["k"] == "mut" and f0["ops"] and f0["ops"][0][0] in ("flip", "trunc", "set", "add"):
        v = f0["ops"][0][1]
        pos = (v // 8 if f0["ops"][0][0] == "flip" else v)
    sig = (fr, cmd["op"], cmd.get("count") or cmd.get("blocklen"), case["mclass"], pos, outcome)
    probes = {"accepted_mutated_frame": accepted_mutated, "corrupt_deliveries": delivered_corrupt,
              "outcome:" + outcome: 1}
    return C.package(world, case, violations, sig, delivered_corrupt > 0, probes)


def evidence_extra(tier):
    return {"systematic_cases": len(_space(tier)), "seeded_cases": N_RANDOM[tier],
            "systematic_part": "every truncation and every single-bit flip of the conforming answer of %d representative commands" % len(REPR[tier])}
