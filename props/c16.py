"""C16 - reading a single sensor gives the same value as the bulk read (DESIGN 6/C16)."""
from __future__ import annotations

import math

import asyncio

from sim.net import World
from . import common as C
from . import decoding as D
from . import devices
from .common import viol

ID = "C16"
LEVEL = "exploration"
BATCH = 1
RULE = ("The peer's registers are FROZEN; read_runtime_data() and then read_sensor(id) for EVERY id listed by sensors() "
        "(ET in 5 model variants, DT in 4, ES in 2; RTU/UDP and Modbus/TCP), register contents {zero, FF, boundary "
        "words, seeded random, stepping}.  Histories: (a) plain; (b) the battery appears / disappears between two bulk "
        "reads (the sensor set changes after the single-read map may have been built), with single reads before and "
        "after; (c) read_sensor called before read_device_info.  Oracle: read_sensor(id) == bulk value (NaN-aware), or "
        "ValueError where the bulk read reports None; never NotImplementedError, never 'unknown sensor' for an id "
        "that sensors() lists at that moment.  Non-trivial: every run; distinct: (configuration, fill, seed, history).")
ASSUMPTIONS = [
    "registers do not change between the bulk read and the single reads (the peer is frozen)",
]
LEVEL_TEXT = ("Seeded exploration over model configurations, register contents and call histories on the simulated loop; "
              "every listed id is exercised in every run, so the id space is covered completely per configuration.")
LEVEL_NOTE = "Trusted: peer register file (frozen); equality is between two answers of the library itself."
TECHNIQUE = "deterministic simulation: frozen peer, bulk read vs single read for every id, capability-change histories"

FILLS = [("zero", 0), ("ff", 0), ("bound", 1), ("bound", 2), ("hash", 1), ("hash", 2), ("step", 3), ("step", 4),
         ("sp32a", 1), ("sp32b", 1)]
HISTORIES = ["plain", "battery_off_on", "battery_on_off", "single_first", "before_info", "settings_first",
             "refused_block_first", "settings_refused_first", "concurrent_singles", "comm_address_written"]
REPS = {"quick": 1, "thorough": 48}
_SPACE = {}


def _space(tier):
    if tier not in _SPACE:
        out = []
        for rep in range(REPS[tier]):
            for ci in range(len(D.CONFIGS)):
                for fi in range(len(FILLS)):
                    for h in HISTORIES:
                        if D.CONFIGS[ci][0] != "ET" and h.startswith("battery"):
                            continue
                        out.append((ci, fi, h, rep))
        _SPACE[tier] = out
    return _SPACE[tier]


def warm(tier):
    _space(tier)


def n_cases(tier):
    return len(_space(tier))


def make_case(tier, seed, index):
    ci, fi, h, rep = _space(tier)[index]
    fam, var, tr = D.CONFIGS[ci]
    fill, fseed = FILLS[fi]
    return {"family": fam, "variant": var, "transport": tr, "fill": fill, "seed": (fseed + 17 * rep + seed * 131) & 0xFFFF,
            "k": (index * 2654435761 + seed) & 0xFFFF, "history": h, "debug_log": index % 9 == 4}


def simplify(case):
    out = []
    if case["history"] != "plain":
        out.append(dict(case, history="plain"))
    return out


def same(a, b):
    if isinstance(a, float) and isinstance(b, float) and math.isnan(a) and math.isnan(b):
        return True
    return type(a) is type(b) and a == b or (a == b and not isinstance(a, bool) and not isinstance(b, bool))


def run_case(case):
    goodwe, gp, ge = C.goodwe_mods()
    fam, var, tr = case["family"], case["variant"], case["transport"]
    world = World(max_steps=2_000_000)
    dev, inv = D.build(goodwe, fam, var, tr, case["seed"], case["fill"])
    dev.k = case["k"]
    if fam == "ET":
        dev.set_reg(35184, 1)
    world.net.add_device(C.HOST, C.port_of(tr), dev)
    violations = []
    keys = set()
    stats = {"ids": 0, "equal": 0, "valueerror_ok": 0}
    world.events = []
    h = case["history"]

    def add(key, detail):
        if key not in keys:
            keys.add(key)
            violations.append(viol(key, detail))

    async def compare(bulk, label):
        sensors = inv.sensors()
        from sim import refdecode as R
        for sn in sensors:
            sid = sn.id_
            cls = type(sn).__name__
            if fam != "ES" and cls in R.WIDTH and not dev.is_valid(sn.offset, (R.WIDTH[cls] + 1) // 2):
                stats["outside_device_ranges"] = stats.get("outside_device_ranges", 0) + 1
                continue  # registers the peer does not have (sensor behind the fetched window): C14's subject
            stats["ids"] += 1
            try:
                if h == "concurrent_singles":
                    # two callers ask for the same id at the same time: both get the value (the second is compared)
                    a, v = await asyncio.gather(inv.read_sensor(sid), inv.read_sensor(sid), return_exceptions=True)
                    if isinstance(a, BaseException):
                        raise a
                    if isinstance(v, BaseException):
                        raise v
                else:
                    v = await inv.read_sensor(sid)
            except NotImplementedError as e:
                add(f"C16:not-implemented:{cls}", f"{fam}/{var}/{tr} {label}: read_sensor({sid!r}) raised NotImplementedError")
                continue
            except ValueError as e:
                if sid in bulk and bulk[sid] is None:
                    stats["valueerror_ok"] += 1
                    continue
                if "nknown" in str(e):
                    kind = "unknown-sensor:zero-size:" + cls if getattr(sn, "size_", 1) == 0 else "unknown-sensor:stale-map"
                else:
                    kind = "value-error:" + cls
                add(f"C16:{kind}", f"{fam}/{var}/{tr} {label}: read_sensor({sid!r}) raised {e!r} but the bulk read "
                    f"reports {bulk.get(sid, '<absent>')!r}")
                continue
            except Exception as e:  # noqa
                add(f"C16:exception:{type(e).__name__}:{cls}", f"{fam}/{var}/{tr} {label}: read_sensor({sid!r}) raised {e!r}")
                continue
            if sid not in bulk:
                add(f"C16:not-in-bulk:{cls}", f"{fam}/{var}/{tr} {label}: {sid} listed by sensors() but absent from the bulk result")
            elif not same(v, bulk[sid]):
                kname = cls
                if fam == "ET" and sid in ("apparent_power2", "apparent_power3"):
                    kname = cls + ":mppt-window:" + sid   # the bulk value is the truncated one (C14's known findings)
                add(f"C16:wrong-value:{kname}", f"{fam}/{var}/{tr} {label} fill={case['fill']}: read_sensor({sid!r}) = {v!r}, "
                    f"read_runtime_data reports {bulk[sid]!r}")
            else:
                stats["equal"] += 1

    async def main():
        if h == "before_info":
            # single reads before the device info is known (full tables)
            try:
                await inv.read_sensor(inv.sensors()[1].id_)
            except (ValueError, ge.InverterError):
                pass
            except NotImplementedError:
                pass
        await inv.read_device_info()
        if h == "single_first":
            try:
                await inv.read_sensor(inv.sensors()[1].id_)
            except (ValueError, ge.InverterError, NotImplementedError):
                pass
        if h == "refused_block_first":
            # single reads of ids whose optional block THIS inverter refuses, before any bulk read had a chance to
            # notice: listed by sensors() at that moment, so 'unknown sensor' is not an acceptable answer
            for sn in list(inv.sensors()):
                n = max(1, (sn.size_ + 1) // 2)
                if fam != "ES" and sn.size_ > 0 and not dev.is_valid(sn.offset, n):
                    try:
                        await inv.read_sensor(sn.id_)
                    except ValueError as e:
                        if "nknown" in str(e) and sn.id_ in {x.id_ for x in inv.sensors()}:
                            add("C16:unknown-sensor:refused-block-before-bulk",
                                f"{fam}/{var}/{tr}: read_sensor({sn.id_!r}) raised {e!r} while sensors() lists the id "
                                f"(its block is refused by this inverter and no bulk read has pruned the list yet)")
                            break
                    except Exception:  # noqa
                        pass
        if h == "comm_address_written" and fam == "ET":
            # the application writes the inverter's comm address setting (the inverter keeps answering under the address
            # this object was created for, and only under that one): bulk and single reads still agree
            dev.comm_addr = 0xF7
            if "comm_address" in {x.id_ for x in inv.settings()}:
                try:
                    await inv.write_setting("comm_address", 0x21)
                except (ValueError, ge.InverterError):
                    pass
        if h == "settings_refused_first":
            # ... and the inverter REFUSES those setting registers (older firmware): the sensor of the same id is
            # another register and stays readable
            sens = {x.id_ for x in inv.sensors()}
            for st_ in list(inv.settings()):
                if st_.id_ in sens and fam != "ES":
                    dev.exc_map.append((st_.offset, st_.offset + max(1, (st_.size_ + 1) // 2) - 1, 2))
                    try:
                        await inv.read_setting(st_.id_)
                    except (ValueError, ge.InverterError):
                        pass
        if h == "settings_first":
            # ids that exist both as sensor and as setting (work_mode, battery_modules, ...) are read as SETTING first
            sens = {x.id_ for x in inv.sensors()}
            for st_ in list(inv.settings()):
                if st_.id_ in sens:
                    try:
                        await inv.read_setting(st_.id_)
                    except (ValueError, ge.InverterError):
                        pass
        if h == "battery_off_on":
            dev.set_reg(35184, 0)
            b0 = await inv.read_runtime_data()
            await compare(b0, "battery absent")
            dev.set_reg(35184, 1)
            if case["seed"] % 2 == 0:
                # the bulk read that NOTICES the battery loses its second request (the battery block) with all its
                # retransmissions and fails: sensors() now lists the battery ids, and a listed id is never 'unknown'
                world.net.begin_script([{"k": "ok"}] + [{"k": "drop"}] * 2, {"k": "ok"})
                try:
                    await inv.read_runtime_data()
                except ge.InverterError:
                    pass
                world.net.begin_script([], {"k": "ok"})
                for sn in list(inv.sensors()):
                    if sn.id_ in ("battery_soc", "battery_temperature", "battery_soh", "battery_bms"):
                        try:
                            await inv.read_sensor(sn.id_)
                        except ValueError as e:
                            if "nknown" in str(e):
                                add("C16:unknown-sensor:stale-map:after-failed-bulk",
                                    f"{fam}/{var}/{tr}: read_sensor({sn.id_!r}) raised {e!r} although sensors() lists the "
                                    f"id (the bulk read that noticed the battery failed half-way)")
                                break
                        except Exception:  # noqa
                            pass
        elif h == "battery_on_off":
            b0 = await inv.read_runtime_data()
            await compare(b0, "battery present")
            dev.set_reg(35184, 0)
            # the battery has just gone; the ids are still listed and no bulk read has noticed yet: a single read of
            # a value that lives in the battery block answers a value, None, or ValueError - nothing else
            for sn in list(inv.sensors()):
                if type(sn).__name__ == "EnumBitmap22" or sn.id_ in ("battery_soc", "battery_bms"):
                    try:
                        await inv.read_sensor(sn.id_)
                    except (ValueError, ge.InverterError):
                        pass
                    except Exception as e:  # noqa
                        add(f"C16:exception:{type(e).__name__}:{type(sn).__name__}:battery-just-gone",
                            f"{fam}/{var}/{tr}: read_sensor({sn.id_!r}) raised {e!r} right after the battery disappeared "
                            f"(the id was listed by sensors() when the call was made)")
                        break
        bulk = await inv.read_runtime_data()
        await compare(bulk, h)

    status, _ = C.run_world(world, main())
    if status != "ok":
        violations.append(viol(f"C16:hang:{fam}", f"did not terminate: {status}"))
    world.events = []
    world.log("summary", fam, var, tr, case["fill"], h, stats["ids"], stats["equal"], sorted(keys))
    sig = (fam, var, tr, case["fill"], case["seed"], h)
    return C.package(world, case, violations, sig, True, stats)
