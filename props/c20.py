"""C20 - inverter objects are independent; returned values do not change afterwards (DESIGN 6/C20)."""
from __future__ import annotations

import asyncio
import random

from sim.net import World
from sim import runner
from . import common as C
from . import devices
from .common import viol

ID = "C20"
LEVEL = "exploration"
BATCH = 1
RULE = ("Two inverter objects A and B (same or different family / platform / transport: ET 205-platform, ET 745-platform, "
        "ET eco-v1, DT, ES v1, ES v2) talk to two simulated inverters with different register contents (including "
        "undecodable eco groups).  Each has a seeded call sequence drawn from {read_runtime_data, read_setting of "
        "every setting kind incl. eco groups and peak shaving, write_setting of scalar / byte / eco-group values, "
        "set_operation_mode of every mode, get_operation_mode, read_sensor}, interspersed with peer-side events (eco group 1 "
        "becomes undecodable / 'not set', the next request is answered by exception 6); objects may use custom comm "
        "addresses (the peer then answers only that address) and each peer refuses a random subset of settings.  The case is executed three times, each "
        "in its own pristine forked process: A alone, B alone, and A || B as two tasks on one simulated loop with "
        "plan-chosen start offsets and per-answer latencies (interleaving granularity = every request).  Oracles: per "
        "object the frames seen by its peer (Modbus/TCP transaction id masked) and the results (snapshotted as text at "
        "return time) are identical solo vs interleaved; every returned value's snapshot is unchanged at the end of "
        "the run (solo runs too).  Non-trivial: every case; distinct: (kinds of A and B, call sequences, offsets).")
ASSUMPTIONS = [
    "snapshots are textual (repr / str + public fields of eco-mode objects) taken when the call returns",
    "solo and interleaved executions start from pristine interpreter state (fork-per-run)",
]
LEVEL_TEXT = ("Seeded exploration of interleavings of two call sequences; the solo executions are the reference model "
              "(refinement: interleaved behaviour per object must equal its solo behaviour).")
LEVEL_NOTE = "Trusted: fork isolation; textual snapshots."
TECHNIQUE = "deterministic simulation: solo vs interleaved executions in pristine processes, per-object trace equality"

N = {"quick": 1500, "thorough": 150_000}
KINDS = ["ET205", "ET745", "ETv1", "DT", "DT1", "DTtcp", "ESv1", "ESv2", "ET205tcp"]
REFUSABLE = {"ET": ["bms2_version", "bms2_bat_soc", "battery_capacity", "dred", "fast_charging"], "DT": ["shadow_scan_pv3", "grid_export_hw"],
             "ES": []}


def n_cases(tier):
    return N[tier]


def _ops_for(kind, rnd, n):
    ops = []
    fam = kind[:2]
    for _ in range(n):
        x = rnd.random()
        if fam == "DT":
            c = rnd.choice(["runtime", "read:grid_export_limit", "read:time", "write:grid_export_limit", "sensor:vpv1",
                            "write:shadow_scan_pv1", "read:shadow_scan_pv3", "read:grid_export_hw", "read:grid_export_limit",
                            "write:grid_export_limit"])
        elif fam == "ES":
            c = rnd.choice(["runtime", "read:eco_mode_1", "read:eco_mode_2", "read:grid_export_limit", "read:eco_mode_1_switch",
                            "write:eco_mode_2", "write:eco_mode_3_switch", "setmode", "getmode", "settings"])
        else:
            c = rnd.choice(["runtime", "read:eco_mode_1", "read:eco_mode_2", "read:eco_mode_1", "read:peak_shaving_mode",
                            "read:grid_export_limit", "read:eco_mode_3_switch", "read:time", "write:eco_mode_2",
                            "write:eco_mode_4_switch", "write:grid_export_limit", "write:power_factor", "setmode", "setmode",
                            "getmode", "sensor:vpv1", "sensor:ppv", "read:bms2_version", "read:bms2_bat_soc",
                            "read:battery_capacity", "read:dred", "read:fast_charging", "devgarbage", "devnotset", "excnext",
                            "read:peak_shaving_mode", "write:peak_shaving_mode", "devpeak", "settings"])
        op = {"c": c}
        if c == "setmode":
            op["mode"] = rnd.choice([0, 1, 2, 3, 98, 99, 98, 99])
            op["p"] = rnd.randint(1, 100)
            op["s"] = rnd.randint(0, 100)
        if c.startswith("write:"):
            op["v"] = rnd.randint(0, 100)
            op["on"] = rnd.random() < 0.5
        ops.append(op)
    if fam in ("ET", "ES") and rnd.random() < 0.2:
        # motif: the caller holds a value read from a group in an unusual state, then the preparatory read of an
        # emulated-mode switch fails softly (peer busy / group undecodable / refused)
        motif = [{"c": rnd.choice(["devnotset", "devnotset", "devgarbage"])}, {"c": "read:eco_mode_1"},
                 {"c": rnd.choice(["excnext", "devgarbage", "excnext"])},
                 {"c": "setmode", "mode": rnd.choice([98, 99]), "p": rnd.randint(1, 100), "s": rnd.randint(0, 100)},
                 {"c": "read:eco_mode_1"}]
        at = rnd.randint(0, len(ops))
        ops[at:at] = motif
    return ops


def make_case(tier, seed, index):
    rnd = C.rng_for(seed, ID, index)
    ka, kb = rnd.choice(KINDS), rnd.choice(KINDS)
    if index % 3 == 0:
        ka, kb = rnd.choice(["ET745", "ET205"]), rnd.choice(["ET205", "ET745", "ESv2"])
    offs = [0.0, 0.0, 0.001, 0.0005, 0.002, 0.01]
    def side(k, lats):
        fam = k[:2]
        return {"kind": k, "seed": rnd.randrange(1 << 16), "garbage_eco": rnd.random() < 0.4, "start": rnd.choice(offs),
                "lat": rnd.choice(lats), "ops": _ops_for(k, rnd, rnd.randint(2, 7)),
                "comm_addr": rnd.choice([0, 0, 0x25, 0x7E]),
                "refuse": [x for x in REFUSABLE[fam] if rnd.random() < 0.35],
                "frag": rnd.choice([None, None, 2, 3, 5]),
                # the inverter's clock in the runtime data: as the fill has it (practically never a date), a valid
                # date, or all zeroes (an inverter that is starting up)
                "clock": rnd.choice([None, "valid", "valid", "zero"]),
                # an object that is used as constructed, without read_device_info() (model-specific tables not applied)
                "no_info": rnd.random() < 0.12,
                # a lossy path to this inverter: every n-th transmission to it gets no answer (retransmitted once)
                "lose": rnd.choice([None, None, None, 3, 4, 7]),
                # each object has its own timeout and retry budget
                "timeout": rnd.choice([1, 1, 0.5, 2]), "retries": rnd.choice([1, 1, 2, 0, 3])}
    if index % 5 == 1:
        ka = kb = rnd.choice(["DT", "DT1", "DTtcp", "ET205", "ET205tcp"])
        if rnd.random() < 0.5:
            kb = {"DT": "DT1", "DT1": "DTtcp", "DTtcp": "DT", "ET205": "ET205tcp", "ET205tcp": "ET205"}[ka]
    case = {"a": side(ka, [0.001, 0.0005, 0.003]), "b": side(kb, [0.001, 0.0007, 0.002])}
    if index % 7 == 3:
        # two objects of the SAME family whose answers both arrive in pieces (class-level command objects are shared by
        # all instances of a family)
        k = rnd.choice(["ESv1", "ESv2", "ET205", "DT"])
        case = {"a": side(k, [0.001, 0.0005]), "b": side(k if rnd.random() < 0.7 else {"ESv1": "ESv2", "ESv2": "ESv1"}.get(k, k),
                                                        [0.001, 0.0007])}
        case["a"]["frag"] = rnd.choice([2, 3, 5])
        case["b"]["frag"] = rnd.choice([2, 3, 5])
    if index % 6 == 4:
        # both objects are used in one event loop and then again in a later one (a second asyncio.run), some with a
        # kept-alive socket/connection from the first
        case["loops2"] = True
        case["a"]["keep_alive"] = rnd.random() < 0.7
        case["b"]["keep_alive"] = rnd.random() < 0.7
    return case


def simplify(case):
    out = []
    if case.get("loops2"):
        c = {k: (dict(v) if isinstance(v, dict) else v) for k, v in case.items()}
        c.pop("loops2")
        out.append(c)
    for side in ("a", "b"):
        if case[side].get("frag"):
            c = {k: (dict(v) if isinstance(v, dict) else v) for k, v in case.items()}
            c[side]["frag"] = None
            out.append(c)
        if case[side]["start"]:
            c = {k: (dict(v) if isinstance(v, dict) else v) for k, v in case.items()}
            c[side]["start"] = 0.0
            out.append(c)
        if case[side]["garbage_eco"]:
            c = {k: (dict(v) if isinstance(v, dict) else v) for k, v in case.items()}
            c[side]["garbage_eco"] = False
            out.append(c)
    return out


def snap(v):
    if isinstance(v, dict):
        return "{" + ", ".join(f"{k!r}: {snap(x)}" for k, x in sorted(v.items())) + "}"
    if hasattr(v, "start_h") and hasattr(v, "day_bits"):
        fields = {k: getattr(v, k, None) for k in ("start_h", "start_m", "end_h", "end_m", "power", "on_off", "day_bits",
                                                    "days", "soc", "month_bits", "months")}
        st = getattr(v, "schedule_type", None)
        return f"<{type(v).__name__} {str(v)} {fields} type={int(st) if st is not None else None}>"
    return repr(v)


def _apply_common(dev, inv, spec):
    """Peer answers only its own comm address; some settings are refused with ILLEGAL DATA ADDRESS."""
    ca = spec.get("comm_addr") or 0
    if ca:
        dev.comm_addr = ca
    smap = {}
    for attr in dir(type(inv)):
        pass
    return dev


def _is_read(data, kind):
    """Only answers to READ requests are delivered in pieces: the library does not reassemble write confirmations (a
    cut one is an invalid answer and costs a retry), so with them the result would depend on whether the tail of the
    first answer or the answer to the retransmission arrives first - a tie that solo and interleaved runs break
    differently (their clocks differ in the last bit after a loop change)."""
    if data[:2] == b"\xaa\x55":
        return True
    fc = data[7] if kind == "tcp" and len(data) > 7 else (data[1] if len(data) > 1 else 0)
    return fc == 3


def _set_clock(dev, spec, reg):
    if spec.get("clock") == "valid":
        s = spec["seed"]
        dev.set_bytes(reg, bytes([20 + s % 10, 1 + s % 12, 1 + (s >> 4) % 28, (s >> 2) % 24, (s >> 3) % 60, s % 60]))
    elif spec.get("clock") == "zero":
        dev.set_bytes(reg, bytes(6))


def _build(goodwe, spec, host):
    kind = spec["kind"]
    tr = "tcp" if kind.endswith("tcp") else "udp"
    seed = spec["seed"]
    ca = spec.get("comm_addr") or 0
    if kind.startswith("ET"):
        caps = ("battery",) if kind == "ETv1" else ("battery", "eco_v2", "peak_shaving")
        serial = "9010KETT000W0001" if kind == "ET745" else "9010KETU000W0001"
        dev = devices.make_et(serial=serial, caps=caps, seed=seed, fill="hash", comm_addr=None, restrict=False)
        if kind == "ETv1":
            dev.valid = devices.et_valid_ranges(caps)
        inv = goodwe.ET(host, C.port_of(tr), ca, spec.get("timeout", 1), spec.get("retries", 1))
        if ca:
            dev.comm_addr = ca
        bases = [47515, 47519, 47523, 47527] if kind == "ETv1" else [47547, 47553, 47559, 47565]
        glen = 8 if kind == "ETv1" else 12
        setb = dev.set_bytes
        dev.set_bytes(45200, bytes([23, 5, 17, 10, 11, 12]))
        _set_clock(dev, spec, 35100)
        dev.set_reg(47000, 3)
        if glen == 12:
            dev.set_bytes(47589, bytes.fromhex("0000173bfc7f006400640000"))
    elif kind.startswith("DT"):
        serial = "93000DSN000W0001" if kind == "DT1" else "9010KDTU000W0001"
        dev = devices.make_dt(serial=serial, seed=seed, fill="hash", comm_addr=None, restrict=False)
        inv = goodwe.DT(host, C.port_of(tr), ca, spec.get("timeout", 1), spec.get("retries", 1))
        if ca:
            dev.comm_addr = ca
        dev.set_bytes(40313, bytes([23, 5, 17, 10, 11, 12]))
        _set_clock(dev, spec, 30100)
        _refuse(dev, inv, spec)
        return dev, inv, tr, None
    else:
        v2 = kind == "ESv2"
        dev = devices.make_es(seed=seed, fill="hash", firmware="2525E" if v2 else "14147", eco_v2_modbus=v2)
        dev.comm_addr = None
        dev.settings_block[66:68] = b"\x00\x03"
        inv = goodwe.ES(host, C.port_of(tr), ca, spec.get("timeout", 1), spec.get("retries", 1))
        if ca:
            dev.comm_addr = ca
        bases = [47547, 47553, 47559, 47565] if v2 else [1793, 1797, 1801, 1805]
        glen = 12 if v2 else 8
        setb = dev.set_bytes if v2 else dev.set_aa55_bytes
    rnd = random.Random(seed)
    for i, b in enumerate(bases):
        if glen == 8:
            g = bytes([rnd.randrange(24), rnd.randrange(60), rnd.randrange(24), rnd.randrange(60)]) + \
                rnd.randint(-100, 100).to_bytes(2, "big", signed=True) + bytes([rnd.choice([0, 0xFF]), rnd.randrange(128)])
        else:
            st = 6 if kind == "ET745" else rnd.choice([0, 0, 1, 3])
            power = rnd.randint(-100, 100) * (10 if st == 6 else 1)
            g = bytes([rnd.randrange(24), rnd.randrange(60), rnd.randrange(24), rnd.randrange(60),
                       (255 - st) if rnd.random() < 0.5 else st, rnd.randrange(128)]) + \
                power.to_bytes(2, "big", signed=True) + rnd.randint(0, 100).to_bytes(2, "big") + b"\x00\x00"
        if spec["garbage_eco"] and i == 0:
            g = bytes([99, 99]) + g[2:]     # undecodable start time: decoding stops before the type is detected
        setb(b, g)
    _refuse(dev, inv, spec)
    return dev, inv, tr, (setb, bases[0], glen)


def _refuse(dev, inv, spec):
    """Registers of the listed settings answer ILLEGAL DATA ADDRESS on THIS peer only."""
    table = {}
    for name in dir(type(inv)):
        if name.endswith("__all_settings") or "__settings_" in name:
            group = getattr(type(inv), name)
            if isinstance(group, dict):
                group = group.values()
            try:
                items = list(group)
            except TypeError:
                continue
            for st in items:
                if hasattr(st, "id_") and hasattr(st, "offset"):
                    table.setdefault(st.id_, st)
    for sid in spec.get("refuse", ()):
        st = table.get(sid)
        if st is not None:
            n = max(1, (st.size_ + 1) // 2)
            dev.exc_map.append((st.offset, st.offset + n - 1, 2))


def _value_for(op, inv, sid):
    s = {x.id_: x for x in inv.settings()}.get(sid)
    cls = type(s).__name__ if s else "?"
    if cls == "EcoModeV1":
        return bytes([1, 2, 3, 4]) + (-op["v"]).to_bytes(2, "big", signed=True) + bytes([0xFF if op["on"] else 0, 0x55])
    if cls in ("EcoModeV2", "PeakShavingMode", "Schedule"):
        return bytes([1, 2, 3, 4, 0xFF if op["on"] else 0, 0x55]) + (-op["v"]).to_bytes(2, "big", signed=True) + b"\x00\x32\x00\x00"
    if cls in ("ByteH", "ByteL"):
        return -1 if op["on"] else 0
    if cls == "Decimal":
        return op["v"] / 100
    return op["v"]


def execute(arg):
    """Run one of the three executions (in its own pristine process).  arg = (case, which) with which in a|b|ab."""
    case, which = arg
    goodwe, gp, ge = C.goodwe_mods()
    import goodwe as gw
    world = World(max_steps=2_000_000)
    hosts = {"a": "10.0.0.1", "b": "10.0.0.2"}
    sides = {}
    for side in ("a", "b"):
        if side in which:
            dev, inv, tr, eco = _build(goodwe, case[side], hosts[side])
            if case[side].get("keep_alive"):
                inv.set_keep_alive(True)
            world.net.add_device(hosts[side], C.port_of(tr), dev)
            sides[side] = {"dev": dev, "inv": inv, "tr": tr, "results": [], "values": [], "eco": eco}
    lat = {hosts[s]: case[s]["lat"] for s in sides}
    # per-peer latency: patch the default answer delay by destination
    orig_send = world.net.client_send

    exc_next = {}

    frag = {hosts[s]: case[s].get("frag") for s in sides}
    lose = {hosts[s]: case[s].get("lose") for s in sides}
    nsent = {}

    def client_send(trp, data):
        host = trp.remote[0]
        nsent[host] = nsent.get(host, 0) + 1
        d = lat.get(host, 0.001)
        if lose.get(host) and nsent[host] % lose[host] == 0:
            world.net.default_fault = {"k": "drop"}
        elif exc_next.pop(host, None):
            world.net.default_fault = {"k": "exc", "code": 6, "d": d}
        elif frag.get(host) and nsent[host] % 2 == 0 and _is_read(data, trp.kind):
            # this peer's answers arrive in two pieces (every other one), far enough apart for the other object's
            # traffic to fall in between
            world.net.default_fault = {"k": "frag", "s": 9, "d1": d, "d2": d * frag[host]}
        else:
            world.net.default_fault = {"k": "ok", "d": d}
        return orig_send(trp, data)

    world.net.client_send = client_send

    async def run_side(side, part=None):
        st = sides[side]
        inv = st["inv"]
        spec = case[side]
        if spec["start"]:
            await asyncio.sleep(spec["start"])
        ops = spec["ops"]
        if part is not None:
            mid = len(ops) // 2
            ops = ops[:mid] if part == 0 else ops[mid:]
        if part in (None, 0) and spec.get("no_info"):
            st["info"] = "skipped"
        elif part in (None, 0):
            try:
                await inv.read_device_info()
                st["info"] = "ok"
            except Exception as e:  # noqa - the outcome is compared solo vs interleaved like every other result
                st["info"] = "exc:" + type(e).__name__ + ":" + str(e)[:60]
        for op in ops:
            c = op["c"]
            try:
                if c == "runtime":
                    v = await inv.read_runtime_data()
                elif c == "settings":
                    v = await inv.read_settings_data()
                elif c.startswith("read:"):
                    v = await inv.read_setting(c[5:])
                elif c.startswith("sensor:"):
                    v = await inv.read_sensor(c[7:])
                elif c.startswith("write:"):
                    v = await inv.write_setting(c[6:], _value_for(op, inv, c[6:]))
                elif c == "setmode":
                    v = await inv.set_operation_mode(gw.OperationMode(op["mode"]), op["p"], op["s"])
                elif c == "getmode":
                    v = await inv.get_operation_mode()
                elif c == "devpeak":
                    # the PEER's peak shaving group changes (another actor): valid contents, different every time
                    if st["eco"] is not None and st["eco"][2] == 12:
                        st["npeak"] = st.get("npeak", 0) + 1
                        k = st["npeak"]
                        st["eco"][0](47589, bytes([k % 24, (7 * k) % 60, (k + 5) % 24, (11 * k) % 60, 0xFC if k % 2 else 3,
                                                   (k * 37) % 128]) + (10 * k).to_bytes(2, "big") +
                                     ((k * 13) % 101).to_bytes(2, "big") + b"\x00\x00")
                    v = None
                elif c in ("devgarbage", "devnotset"):
                    # the PEER's eco group 1 changes (another actor): undecodable / the factory 'not set' marker
                    if st["eco"] is not None:
                        setb, base, glen = st["eco"]
                        if c == "devgarbage":
                            setb(base, bytes([99, 99] + [1] * (glen - 2)))
                        elif glen == 12:
                            setb(base, bytes([0xFF, 0xFF, 0xFF, 0xFF, 85, 0, 0, 20, 0, 50, 0, 0]))
                    v = None
                elif c == "excnext":
                    exc_next[hosts[side]] = True    # the next request of this object is answered SLAVE DEVICE BUSY
                    v = None
                else:
                    raise AssertionError(c)
                st["results"].append(("ok", snap(v)))
                st["values"].append(v)
            except Exception as e:  # noqa
                st["results"].append(("exc", type(e).__name__ + ":" + str(e)[:80]))
                st["values"].append(None)

    async def main(part=None):
        tasks = [asyncio.ensure_future(run_side(s, part)) for s in sorted(sides)]
        for t, s in zip(tasks, sorted(sides)):
            t.set_name("side-" + s)
        await asyncio.gather(*tasks)

    if case.get("loops2"):
        status, _ = C.run_world(world, main(0))
        if status == "ok":
            status, _ = C.run_world(world, main(1))
    else:
        status, _ = C.run_world(world, main())
    out = {"status": status, "digest": world.digest(), "steps": world.steps, "simtime": world.clock.now,
           "wall_hits": runner._WALL["hits"],
           "counters": dict(world.net.counters), "events": len(world.events)}
    for s, st in sides.items():
        frames = [C.strip_tcp_tx(q["raw"], st["tr"]).hex() for q in st["dev"].requests]
        final = [snap(v) if r[0] == "ok" else None for v, r in zip(st["values"], st["results"])]
        out[s] = {"frames": frames, "results": [("info", st.get("info"))] + st["results"], "final": [None] + final}
    return out


def run_case(case):
    runs = {}
    for which in ("a", "b", "ab"):
        st, res = runner.run_in_child(execute, (case, which))
        if st != "ok":
            raise RuntimeError("C20 sub-run failed: " + str(res))
        runs[which] = res
        if res.get("wall_hits"):
            runner._WALL["hits"] += res["wall_hits"]   # a busy loop interrupted in the sub-run counts for this case
    violations = []
    keys = set()

    def add(key, detail):
        if key not in keys:
            keys.add(key)
            violations.append(viol(key, detail))

    for which, r in runs.items():
        if r["status"] != "ok":
            add("C20:hang", f"execution {which} did not terminate: {r['status']}")
        elif r.get("wall_hits"):
            add("C20:hang", f"execution {which}: a call did not return to the event loop within the real-time budget")
    for side in ("a", "b"):
        solo, inter = runs[side][side], runs["ab"][side]
        other = "b" if side == "a" else "a"
        kinds = f"{case[side]['kind']} next to {case[other]['kind']}"
        # returned values keep their content
        for label, run in (("solo", solo), ("interleaved", inter)):
            for j, (r, fin) in enumerate(zip(run["results"], run["final"])):
                if r[0] == "ok" and fin != r[1]:
                    op = case[side]["ops"][j - 1]["c"]
                    cls = "eco-group" if "EcoMode" in r[1] or "PeakShaving" in r[1] or "Schedule" in r[1] else "value"
                    add(f"C20:alias:{cls}:{label}", f"{kinds}: value returned by call {j} ({op}) was {r[1][:160]} at return "
                        f"time and is {str(fin)[:160]} at the end of the {label} run")
                    break
        if solo["results"] != inter["results"]:
            j = next(i for i, (x, y) in enumerate(zip(solo["results"] + [None], inter["results"] + [None])) if x != y)
            op = "read_device_info" if j == 0 else (case[side]["ops"][j - 1]["c"] if j - 1 < len(case[side]["ops"]) else "?")
            add(f"C20:result-diff:{op.split(':')[0]}", f"{kinds}: result of call {j} ({op}) differs: solo "
                f"{str(solo['results'][j] if j < len(solo['results']) else None)[:140]} vs interleaved "
                f"{str(inter['results'][j] if j < len(inter['results']) else None)[:140]}")
        if solo["frames"] != inter["frames"]:
            j = next(i for i, (x, y) in enumerate(zip(solo["frames"] + [None], inter["frames"] + [None])) if x != y)
            add("C20:request-diff", f"{kinds}: request #{j} differs: solo {solo['frames'][j] if j < len(solo['frames']) else None} "
                f"vs interleaved {inter['frames'][j] if j < len(inter['frames']) else None}")
    ab = runs["ab"]
    world = World()
    world.log("digests", runs["a"]["digest"], runs["b"]["digest"], ab["digest"])
    world.clock.now = ab["simtime"]
    world.net.counters = ab["counters"]
    sig = (case["a"]["kind"], case["b"]["kind"], tuple(o["c"] for o in case["a"]["ops"]), tuple(o["c"] for o in case["b"]["ops"]),
           case["a"]["start"], case["b"]["start"])
    res = C.package(world, case, violations, sig, True, {"executions": 3, "calls": len(case["a"]["ops"]) + len(case["b"]["ops"])})
    res["steps"] = ab["steps"]
    res["events"] = ab["events"]
    return res
