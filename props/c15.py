"""C15 - read_runtime_data() keys equal sensors() for every model and capability set (DESIGN 6/C15)."""
from __future__ import annotations

from . import common as C
from . import configs
from .common import viol

ID = "C15"
LEVEL = "exploration"
BATCH = 8
RULE = ("(A quarter of the UDP configurations: kept-alive socket with every refusal delivered twice; half of the DT "
        "configurations: the meter request of the first poll lost with all retransmissions.)  " + "Same COMPLETE configuration enumeration as C14 (every ET/DT/ES model tag + untagged x rated power class x "
        "every combination of refused optional blocks x battery present/absent patterns over 3 calls; every fifth "
        "configuration additionally under loss within the retry budget).  Oracle: after read_device_info the first "
        "or the second read_runtime_data succeeds, the third too; whenever a call returns, set(result) == "
        "{s.id_ for s in sensors()} evaluated immediately after the call; a supported battery block with a non-zero "
        "battery mode is present.  Non-trivial: every configuration; distinct: (family, tag, power, flags, battery "
        "pattern).")
ASSUMPTIONS = [
    "a refused block answers ILLEGAL DATA ADDRESS (exception 2) to any read window touching it",
]
LEVEL_TEXT = ("Exhaustive enumeration of the finite configuration space (exhaustive: true) through the public API on "
              "the simulated loop; histories of three calls exercise the capability fallbacks that mutate the sensor "
              "set between calls.")
LEVEL_NOTE = "Trusted: peer model's capability ranges."
TECHNIQUE = "deterministic simulation, complete configuration enumeration x 3-call histories; key-set oracle"


def n_cases(tier):
    return len(configs.SPACE())


def warm(tier):
    configs.SPACE()


def exhaustive(tier):
    return True


def make_case(tier, seed, index):
    case = configs.make_case(index, seed)
    if case["family"] != "ES" and case["transport"] == "udp" and index % 4 == 1:
        # kept-alive UDP socket, and every refusal (exception frame) reaches the client twice: the copy arrives when
        # the next request is already on its way
        case["keep_alive"] = True
        case["dup_exc"] = True
    if case["family"] == "DT" and index % 2 == 0 and not case.get("lossy"):
        # the meter request of the first poll gets no answer at all (all retransmissions lost)
        case["fail_request"] = 1
    return case


def simplify(case):
    out = []
    if case.get("lossy"):
        out.append(dict(case, lossy=False))
    if case.get("dup_exc"):
        out.append(dict(case, dup_exc=False, keep_alive=False))
    if case.get("fail_request") is not None:
        c = dict(case)
        c.pop("fail_request")
        out.append(c)
    return out


SHRINK_FROZEN = ("flags", "battery_modes")


def run_case(case):
    obs = configs.run_config(case)
    world, fam = obs["world"], obs["family"]
    violations = []
    if obs["status"] != "ok":
        violations.append(viol(f"C15:hang:{fam}", f"did not terminate: {obs['status']}"))
    if obs["info"] is None or obs["info"]["outcome"] != "result":
        violations.append(viol(f"C15:setup:{fam}", f"read_device_info failed: {obs['info'] and obs['info'].get('exc')!r}"))
    outcomes = [p["rec"]["outcome"] for p in obs["polls"]]
    if obs["polls"]:
        if outcomes[0] != "result" and (len(outcomes) < 2 or outcomes[1] != "result"):
            violations.append(viol(f"C15:not-by-second-call:{fam}",
                                   f"{obs['serial']} flags={case['flags']}: read_runtime_data outcomes {outcomes} "
                                   f"({obs['polls'][1]['rec'].get('exc')!r})"))
        elif len(outcomes) == 3 and outcomes[2] != "result":
            violations.append(viol(f"C15:third-call-failed:{fam}", f"{obs['serial']} flags={case['flags']}: {outcomes}"))
    for j, p in enumerate(obs["polls"]):
        rec = p["rec"]
        if rec["outcome"] != "result":
            continue
        keys = set(rec["value"])
        ids = set(p["sensor_ids"])
        if keys != ids:
            extra, missing = sorted(keys - ids), sorted(ids - keys)
            what = "missing" if missing else "extra"
            violations.append(viol(f"C15:keys:{fam}:{what}",
                                   f"{obs['serial']} flags={case['flags']} call {j}: result has {len(keys)} keys, "
                                   f"sensors() has {len(ids)}; only in result {extra[:6]}, only in sensors() {missing[:6]}"))
            break
        if fam == "ET" and p["battery_mode"] and case["flags"][0] and "battery_soc" not in keys:
            violations.append(viol("C15:supported-block-dropped:ET:battery",
                                   f"{obs['serial']} call {j}: battery block supported and battery mode != 0 but "
                                   f"battery sensors are absent"))
            break
    if fam == "ET" and case["flags"][3] and (case["tag"] in configs.REF_745 or configs.POWERS[case["power"]][1] >= 15000):
        # 'supported ones are all present': a 745-platform / >= 15 kW model whose inverter serves the MPPT block
        last = [p for p in obs["polls"] if p["rec"]["outcome"] == "result"]
        if last and "ppv_total" not in last[-1]["rec"]["value"] and not violations:
            violations.append(viol("C15:supported-block-dropped:ET:mppt",
                                   f"{obs['serial']} (tag {case['tag']}, {configs.POWERS[case['power']][1]} W) flags="
                                   f"{case['flags']}: the inverter serves the MPPT block but its sensors are absent from "
                                   f"the last result"))
    world.events = []
    world.log("summary", fam, obs["serial"], case["flags"], outcomes, [len(p["sensor_ids"]) for p in obs["polls"]])
    sig = (fam, case["tag"], case["power"], tuple(case["flags"]), tuple(case["battery_modes"]))
    return C.package(world, case, violations, sig, True, {"configs": 1, "first_call_failed": 1 if outcomes[:1] == ["rejected"] else 0})
