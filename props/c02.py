"""C02 - every conforming response frame is accepted (DESIGN 6/C02)."""
from __future__ import annotations

from sim.net import World, DEFAULT_LATENCY
from sim.device import SimInverter
from sim import codec
from . import common as C
from .common import EPS, viol

ID = "C02"
LEVEL = "exploration"
BATCH = 16
RULE = ("Fault-free sub-batch: every command shape (read count 1..125, write, write-multi over RTU/UDP and Modbus/TCP; "
        "AA55 device-info/runtime/settings blocks with payload length 0..255, AA55 register read, AA55 writes) x "
        "payload class {all-00, all-FF, walking, seeded random, high-sum} x comm address x inverter addressed by IP "
        "literal or by host name x optional trailing bytes "
        "after an RTU frame: the peer's conforming answer must be accepted on the FIRST transmission, the request must "
        "complete at the delivery instant and response_data() must equal the served payload exactly (also when "
        "trailing bytes were appended: they do not belong to the payload).  Benign sub-batch: the same under loss within the retry budget, in-time delay, two "
        "fragments, duplication: success with the same payload.  Systematic part: all counts / lengths of the tier x "
        "payload classes; rest seeded.  Non-trivial: payload not all-zero or a benign fault fired; distinct: "
        "(framing, op, size, payload class, comm address, trailing, benign fault kinds).")
ASSUMPTIONS = [
    "'conforming' = produced by the independent codec from the protocol descriptions (sim/codec.py); an AA55 "
    "checksum is the byte sum modulo 2^16 (two bytes on the wire)",
    "with trailing bytes 'exactly that payload' is demanded too; a result that is the payload followed by the CRC and "
    "the trailing bytes (what trim_response's fixed [5:-2] slice yields) has its own key, which is a listed known finding",
]
LEVEL_TEXT = ("Exploration with systematic coverage of the frame-shape space: the peer model emits conforming frames of "
              "every size with adversarial payload content; acceptance is observed end-to-end through the real "
              "callbacks on the simulated loop (one transmission, completion instant == delivery instant).")
LEVEL_NOTE = "Trusted: the independent codec (cross-checked against recorded frames by selftest)."
TECHNIQUE = "deterministic simulation, conforming peer with adversarial payloads; benign-fault invariance sub-batch"

CLASSES = ["zero", "ff", "walk", "rand", "high"]
SIZES = {"quick": {"mb": [1, 2, 3, 16, 61, 62, 100, 124, 125], "aa": [0, 1, 2, 63, 64, 86, 128, 142, 200, 254, 255]},
         "thorough": {"mb": list(range(1, 126)), "aa": list(range(0, 256))}}
N_RANDOM = {"quick": 28_000, "thorough": 1_000_000}
_SPACE = {}


def _space(tier):
    if tier not in _SPACE:
        out = []
        for fr in ("rtu", "tcp"):
            for n in SIZES[tier]["mb"]:
                for cl in CLASSES:
                    for addr in ((0xF7, 0x7F) if tier == "quick" else (0xF7, 0x7F, 0, 1, 0x55, 0xAA, 0x80, 0xFF)):
                        out.append((fr, {"op": "read", "count": n}, cl, addr))
        for n in SIZES[tier]["aa"]:
            for cl in CLASSES:
                for (p, t) in (("010200", "0182"), ("010600", "0186"), ("010900", "0189")):
                    out.append(("aa55", {"op": "aa55", "payload": p, "rtype": t, "blocklen": n}, cl, 0xF7))
        for n in ([1, 2, 4, 60, 125] if tier == "quick" else range(1, 126)):
            for cl in CLASSES:
                out.append(("aa55", {"op": "aa55read", "count": n}, cl, 0xF7))
        _SPACE[tier] = out
    return _SPACE[tier]


def warm(tier):
    _space(tier)


def n_cases(tier):
    return len(_space(tier)) + N_RANDOM[tier]


def payload_bytes(cl, n, seed):
    if cl == "zero":
        return bytes(n)
    if cl == "ff":
        return b"\xff" * n
    if cl == "walk":
        return bytes(((j * 17 + seed) & 0xFF) for j in range(n))
    if cl == "high":
        return bytes((0xFF if (j + seed) % 3 else 0x80 | (j & 0x7F)) for j in range(n))
    x = (seed * 2654435761 + 12345) & 0xFFFFFFFF
    out = bytearray()
    for _ in range(n):
        x = (x * 1103515245 + 12345) & 0xFFFFFFFF
        out.append((x >> 16) & 0xFF)
    return bytes(out)


def make_case(tier, seed, index):
    rnd = C.rng_for(seed, ID, index)
    space = _space(tier)
    if index < len(space):
        fr, cmd, cl, addr = space[index]
        cmd = dict(cmd)
        if cmd["op"] in ("read", "aa55read"):
            cmd["reg"] = rnd.randrange(0, 65000)
        return {"kind": "sweep", "framing": fr, "cmd": cmd, "pclass": cl, "pseed": index, "comm_addr": addr,
                "trailing": "", "timeout": 1.0, "retries": 0, "keep_alive": bool(index & 1), "faults": []}
    fr = rnd.choice(["rtu", "tcp", "aa55"])
    cl = rnd.choice(CLASSES)
    if fr in ("rtu", "tcp"):
        op = rnd.choice(["read", "read", "write", "wmulti"])
        if op == "read":
            cmd = {"op": "read", "reg": rnd.randrange(65536 - 125), "count": rnd.randint(1, 125)}
        elif op == "write":
            cmd = {"op": "write", "reg": rnd.randrange(65536),
                   "value": rnd.choice([0, 1, -1, -32768, 32767, 0x7F, 0x80, 0xFF, -256, rnd.randrange(-32768, 32768),
                                        # the same 16-bit register contents given as unsigned numbers
                                        32768, 40000, 65535, rnd.randrange(32768, 65536)])}
        else:
            cmd = {"op": "wmulti", "reg": rnd.randrange(65000),
                   "hex": payload_bytes(cl, 2 * rnd.randint(1, 123), rnd.randrange(1 << 16)).hex()}
    else:
        op = rnd.choice(["aa55", "aa55", "aa55read", "aa55write", "aa55wmulti", "aa55set"])
        if op == "aa55set":
            # AA55 setting commands; the expected response type is a hex string given in either letter case
            c, n = rnd.choice([("0335", 2), ("0359", 1), ("031d", 0), ("0336", 1), ("032c", 5), ("032d", 5)])
            t = "%04x" % (int(c, 16) | 0x80)
            t = rnd.choice([t.lower(), t.upper()])
            cmd = {"op": "aa55", "payload": c + "%02x" % n + bytes(rnd.getrandbits(8) for _ in range(n)).hex(), "rtype": t,
                   "blocklen": 1, "setcmd": True}
        elif op == "aa55":
            p, t = rnd.choice([("010200", "0182"), ("010600", "0186"), ("010900", "0189")])
            cmd = {"op": "aa55", "payload": p, "rtype": t, "blocklen": rnd.randint(0, 255)}
        elif op == "aa55read":
            cmd = {"op": "aa55read", "reg": rnd.randrange(60000), "count": rnd.randint(1, 125)}
        elif op == "aa55write":
            cmd = {"op": "aa55write", "reg": rnd.randrange(60000), "value": rnd.randrange(0, 32768)}
        else:
            cmd = {"op": "aa55wmulti", "reg": rnd.randrange(60000), "hex": payload_bytes(cl, 8, rnd.randrange(1 << 16)).hex()}
    tau = rnd.choice([0.5, 1.0, 2.0])
    r = rnd.choice([0, 1, 2, 3])
    trailing = ""
    if fr == "rtu" and rnd.random() < 0.3:
        trailing = bytes(rnd.getrandbits(8) for _ in range(rnd.choice([1, 2, 3, 8]))).hex()
    faults = []
    if rnd.random() < 0.5:
        # benign faults within the retry budget
        ndrop = rnd.randint(0, r)
        faults = [{"k": "drop"} for _ in range(ndrop)]
        # fragment reassembly is specified for read responses only (C07)
        last = rnd.choice(["ok", "delay", "frag", "dup", "trunc_whole"] if cmd["op"] in ("read", "aa55", "aa55read") else ["ok", "delay", "dup"])
        if last == "delay":
            faults.append({"k": "ok", "d": rnd.choice([tau / 2, tau - EPS])})
        elif last == "frag":
            faults.append({"k": "frag", "s": -1, "d1": DEFAULT_LATENCY, "d2": rnd.choice([2 * DEFAULT_LATENCY, tau / 2])})
        elif last == "dup":
            faults.append({"k": "dup", "d1": DEFAULT_LATENCY, "d2": rnd.choice([2 * DEFAULT_LATENCY, tau / 2])})
        elif last == "trunc_whole":
            # a truncated copy of the answer, then the complete conforming frame (which must be accepted as it is)
            faults.append({"k": "frag_then", "s": -1, "d1": DEFAULT_LATENCY, "d2": rnd.choice([2 * DEFAULT_LATENCY, tau / 2]),
                           "what": {"whole": 1}})
    case = {"kind": "random", "framing": fr, "cmd": cmd, "pclass": cl, "pseed": rnd.randrange(1 << 16),
            "comm_addr": rnd.randrange(256), "trailing": trailing, "timeout": tau, "retries": r,
            "keep_alive": rnd.random() < 0.5, "faults": faults, "by_name": rnd.random() < 0.25,
            "answer_addr": rnd.choice([None, None, None, 0x00, 0x01, 0x7F, 0xF7, 0xFF, rnd.randrange(256)]),
            "aa55_len": rnd.choice([None, 0, 1, 8, 40, 255, rnd.randrange(256)])}
    if fr in ("rtu", "tcp") and not faults and not trailing and rnd.random() < 0.4:
        # history: an EARLIER read on the same object lost the tail of its fragmented answer (and succeeded on the
        # retry); the missing tail had exactly the length of this request's conforming answer
        alen = (7 if fr == "rtu" else 9) + 2 * cmd["count"] if cmd["op"] == "read" else (10 if fr == "rtu" else 12)
        hdr = 5 if fr == "rtu" else 9
        n1 = rnd.randint(max(1, (alen + hdr - (7 if fr == "rtu" else 9) + 2) // 2), 125) if alen + hdr <= (7 if fr == "rtu" else 9) + 250 else None
        if n1 is not None:
            L1 = (7 if fr == "rtu" else 9) + 2 * n1
            if L1 - alen >= hdr:
                case["pre"] = {"count": n1, "s": L1 - alen}
                case["keep_alive"] = True
                case["retries"] = max(1, r)
    return case


def simplify(case):
    out = []
    if case["retries"]:
        out.append(dict(case, retries=0))
    if case["keep_alive"]:
        out.append(dict(case, keep_alive=False))
    if case["trailing"]:
        out.append(dict(case, trailing=""))
    if case.get("by_name"):
        out.append(dict(case, by_name=False))
    if case.get("answer_addr") is not None:
        out.append(dict(case, answer_addr=None))
    return out


def run_case(case):
    fr = case["framing"]
    tr = "tcp" if fr == "tcp" else "udp"
    tau, r = case["timeout"], case["retries"]
    cmd = dict(case["cmd"])
    dev = SimInverter(mode="file", seed=case["pseed"])
    op = cmd["op"]
    served = None
    if op == "read":
        served = payload_bytes(case["pclass"], 2 * cmd["count"], case["pseed"])
        dev.set_bytes(cmd["reg"], served)
    elif op == "aa55" and cmd.get("setcmd"):
        served = b"\x06"
    elif op == "aa55":
        served = payload_bytes(case["pclass"], cmd["blocklen"], case["pseed"])
        dev.blocks[int(cmd["payload"][:4], 16)] = served
    elif op == "aa55read":
        served = payload_bytes(case["pclass"], 2 * cmd["count"], case["pseed"])
        dev.set_aa55_bytes(cmd["reg"], served)
        if case.get("aa55_len") is not None and all(f["k"] in ("ok", "dup", "drop") for f in case["faults"]):
            # "payload length 0..255": the answer's own length byte rules, not the requested count
            served = payload_bytes(case["pclass"], case["aa55_len"], case["pseed"])
            dev.aa55_read_payload = served
    faults = [dict(f) for f in case["faults"]]
    # resolve symbolic split point; append trailing bytes to the RTU answer
    alen = None
    for f in faults:
        if f["k"] in ("frag", "frag_then") and f["s"] == -1:
            hdr = 9 if fr != "rtu" else 5
            if op in ("read", "aa55read"):
                alen = (7 if fr == "rtu" else 9) + 2 * cmd["count"]
            elif op == "aa55":
                alen = 9 + cmd["blocklen"]
            else:
                alen = 10 if fr != "tcp" else 12
            if alen > hdr:
                f["s"] = hdr + (case["pseed"] % (alen - hdr))
            else:
                # frame no longer than its header: a first piece holding the header would be the whole frame
                f.clear()
                f.update({"k": "ok"})
    if case["trailing"]:
        nf = []
        for f in faults or [{"k": "ok"}]:
            if f["k"] == "ok":
                nf.append({"k": "mut", "ops": [["extend", case["trailing"]]], "d": f.get("d", DEFAULT_LATENCY)})
            else:
                nf.append(f)
        faults = nf
    world = World(max_steps=20_000)
    default = {"k": "mut", "ops": [["extend", case["trailing"]]]} if case["trailing"] else {"k": "ok"}
    world.net.begin_script(faults, default)
    world.net.add_device(C.HOST, C.port_of(tr), dev)
    world.net.add_host(C.HOSTNAME, C.HOST)
    if case.get("answer_addr") is not None and hasattr(dev, "comm_addr"):
        dev.answer_addr = case["answer_addr"]   # "any comm address": the answer carries another unit id than the request
    # a quarter of the seeded cases address the inverter by host name: answers then come from the numeric address
    proto = C.make_protocol(tr, tau, r, case["keep_alive"], case["comm_addr"],
                            host=C.HOSTNAME if case.get("by_name") else C.HOST)
    state = {}

    async def main():
        if case.get("pre"):
            world.net.begin_script([{"k": "lonefrag", "s": case["pre"]["s"]}], {"k": "ok"})
            state["pre"] = await C.do_execute(world, proto, {"op": "read", "reg": 100, "count": case["pre"]["count"]}, "pre")
            state["tx_pre"] = world.net.n_tx
            world.net.begin_script(faults, default)
        state["rec"] = await C.do_execute(world, proto, {k: v for k, v in cmd.items() if k not in ("blocklen", "setcmd")}, "req")

    status, _ = C.run_world(world, main())
    net = world.net
    rec = state.get("rec")
    violations = []
    outcome = rec["outcome"] if rec else status
    benign = bool(case["faults"])
    ndrop = sum(1 for f in case["faults"] if f["k"] == "drop")
    txp = state.get("tx_pre", 0)
    ans = next((a for a in net.answers[txp:] if a is not None), None)
    why = "other"
    if fr == "aa55" and ans is not None and sum(ans[:-2]) >= 0x10000:
        why = "sum>=0x10000"
    elif fr == "aa55" and ans is not None and sum(ans[:-2]) >= 0x8000:
        why = "sum>=0x8000"
    size = cmd.get("count") or cmd.get("blocklen") or len(cmd.get("hex", "")) // 2
    if outcome != "result":
        violations.append(viol(f"C02:refused:{fr}:{op}:{why}",
                               f"conforming answer {ans.hex() if ans else None} (payload class {case['pclass']}, size "
                               f"{size}, comm addr {case['comm_addr']}, trailing {case['trailing']!r}) -> {outcome}"))
    else:
        if len(net.transmissions) - txp != ndrop + 1:
            violations.append(viol(f"C02:retransmitted:{fr}:{op}:{why}",
                                   f"{len(net.transmissions) - txp} transmissions, expected {ndrop + 1}"
                                   + (" (after an earlier request that lost a fragment tail)" if case.get("pre") else "")))
        if served is not None:
            data = rec["data"]
            if case["trailing"] and data != served and data.startswith(served) and \
                    len(data) == len(served) + len(case["trailing"]) // 2:
                violations.append(viol(f"C02:payload:{fr}:{op}:trailing-bytes-kept",
                                       f"response_data is the {len(served)} byte payload followed by {len(data) - len(served)} "
                                       f"bytes of checksum/trailing data ({data[len(served):].hex()})"))
            elif data != served:
                violations.append(viol(f"C02:payload:{fr}:{op}", f"response_data {data.hex()} != served {served.hex()}"))
        if not benign:
            dls = [d for d in net.deliveries if d["status"] == "delivered" and d["tx"] >= txp]
            if dls and rec["t1"] != dls[0]["t_run"]:
                violations.append(viol(f"C02:not-at-delivery:{fr}", f"delivered at {dls[0]['t_run']}, completed at {rec['t1']}"))
    kinds = tuple(f["k"] for f in case["faults"])
    sig = (fr, op, size, case["pclass"], case["comm_addr"], bool(case["trailing"]), kinds, outcome)
    nontrivial = case["pclass"] != "zero" or benign
    probes = {"with_fragment_history": 1 if case.get("pre") else 0, "high_sum_aa55": 1 if why != "other" else 0, "benign": 1 if benign else 0,
              "trailing": 1 if case["trailing"] else 0}
    return C.package(world, case, violations, sig, nontrivial, probes)
