"""Shared helpers for property modules: scenario set-up, outcome recording, result packaging, generators."""
from __future__ import annotations

import asyncio
import hashlib
import random

from sim.net import World
from sim.device import SimInverter
from sim.loop import SimDeadlock, SimBudget, HarnessError

EPS = 2.0 ** -20
HOST = "10.0.0.1"
HOST6 = "fd00::10"          # an inverter reached over IPv6 (worlds register the same device under it)
HOSTNAME = "inverter.lan"   # resolves to HOST in worlds that register it (SimNet.add_host)
UDP_PORT = 8899
TCP_PORT = 502

ERRNOS = {"ECONNREFUSED": 111, "ENETUNREACH": 101, "EHOSTUNREACH": 113, "ECONNRESET": 104, "EPERM": 1}


def rng_for(seed: int, pid: str, index: int) -> random.Random:
    h = hashlib.sha256(f"{seed}:{pid}:{index}".encode()).digest()
    return random.Random(int.from_bytes(h[:8], "big"))


def sig_hash(obj) -> int:
    return int.from_bytes(hashlib.blake2b(repr(obj).encode(), digest_size=8).digest(), "big")


def goodwe_mods():
    import goodwe
    import goodwe.protocol as gp
    import goodwe.exceptions as ge
    return goodwe, gp, ge


def make_protocol(transport, timeout, retries, keep_alive, comm_addr=0xF7, host=HOST, port=None):
    _, gp, _ = goodwe_mods()
    if transport == "tcp":
        p = gp.TcpInverterProtocol(host, port or TCP_PORT, comm_addr, timeout, retries)
    else:
        p = gp.UdpInverterProtocol(host, port or UDP_PORT, comm_addr, timeout, retries)
    p.keep_alive = keep_alive
    return p


def port_of(transport):
    return TCP_PORT if transport == "tcp" else UDP_PORT


def build_command(proto, cmd):
    """cmd: {"op":"read","reg":R,"count":N} | {"op":"write","reg":R,"value":V} | {"op":"wmulti","reg":R,"hex":...}
            | {"op":"aa55","payload":hex,"rtype":hex} | {"op":"aa55read","reg":..,"count":..} ..."""
    _, gp, _ = goodwe_mods()
    op = cmd["op"]
    if op == "read":
        return proto.read_command(cmd["reg"], cmd["count"])
    if op == "write":
        return proto.write_command(cmd["reg"], cmd["value"])
    if op == "wmulti":
        return proto.write_multi_command(cmd["reg"], bytes.fromhex(cmd["hex"]))
    if op == "raw":
        # what Inverter.send_command(bytes, validator) builds: a plain ProtocolCommand around a ready-made frame
        import goodwe.modbus as gm
        inner = proto.read_command(cmd["reg"], cmd["count"])
        if isinstance(proto, gp.TcpInverterProtocol):
            return gp.ProtocolCommand(bytes(inner.request_bytes()),
                                      lambda d: gm.validate_modbus_tcp_response(d, 3, cmd["reg"], cmd["count"]))
        return gp.ProtocolCommand(bytes(inner.request_bytes()),
                                  lambda d: gm.validate_modbus_rtu_response(d, 3, cmd["reg"], cmd["count"]))
    if op == "aa55":
        return gp.Aa55ProtocolCommand(cmd["payload"], cmd["rtype"])
    if op == "aa55read":
        return gp.Aa55ReadCommand(cmd["reg"], cmd["count"])
    if op == "aa55write":
        return gp.Aa55WriteCommand(cmd["reg"], cmd["value"])
    if op == "aa55wmulti":
        return gp.Aa55WriteMultiCommand(cmd["reg"], bytes.fromhex(cmd["hex"]))
    raise HarnessError(f"unknown command op {op}")


def classify_exception(e) -> str:
    _, _, ge = goodwe_mods()
    if isinstance(e, ge.RequestRejectedException):
        return "rejected"
    if isinstance(e, ge.RequestFailedException):
        return "failed"
    if isinstance(e, ge.MaxRetriesException):
        return "maxretries"
    if isinstance(e, ge.InverterError):
        return "inverter_error:" + type(e).__name__
    if isinstance(e, asyncio.CancelledError):
        return "other:CancelledError"
    if isinstance(e, OSError):
        return "other:OSError"
    return "other:" + type(e).__name__


async def do_execute(world, proto, cmd, label=None):
    """Execute one protocol-level command, return an outcome record."""
    command = build_command(proto, cmd)
    rec = {"cmd": cmd, "t0": world.clock.now, "tx0": world.net.n_tx, "label": label}
    world.log("invoke", label, repr(cmd))
    try:
        resp = await command.execute(proto)
        rec["outcome"] = "result"
        rec["raw"] = bytes(resp.raw_data)
        rec["data"] = bytes(resp.response_data())
        rec["resp"] = resp   # the returned object itself (a caller may keep it across later requests)
    except asyncio.CancelledError as e:
        # a CancelledError leaving execute() while nobody cancelled the caller is an outcome, not a cancellation
        rec["outcome"] = "other:CancelledError"
        rec["exc"] = e
    except Exception as e:  # noqa
        rec["outcome"] = classify_exception(e)
        rec["exc"] = e
        rec["msg"] = getattr(e, "message", None)
    rec["t1"] = world.clock.now
    rec["tx1"] = world.net.n_tx
    world.log("return", label, rec["outcome"], rec.get("raw", b"").hex())
    return rec


async def do_call(world, label, coro_fn):
    """Call a public coroutine, record outcome."""
    rec = {"label": label, "t0": world.clock.now, "tx0": world.net.n_tx}
    world.log("invoke", label)
    try:
        rec["value"] = await coro_fn()
        rec["outcome"] = "result"
    except asyncio.CancelledError as e:
        rec["outcome"] = "other:CancelledError"
        rec["exc"] = e
    except Exception as e:  # noqa
        rec["outcome"] = classify_exception(e)
        rec["exc"] = e
        rec["msg"] = getattr(e, "message", None)
    rec["t1"] = world.clock.now
    rec["tx1"] = world.net.n_tx
    world.log("return", label, rec["outcome"])
    return rec


def run_world(world, coro):
    """Run main coroutine; returns (status, value) with status in ok|deadlock|budget."""
    try:
        return "ok", world.run(coro)
    except SimDeadlock as e:
        world.log("deadlock", str(e))
        return "deadlock", str(e)
    except SimBudget as e:
        world.log("budget", str(e))
        return "budget", str(e)


def package(world, case, violations, sig, nontrivial, probes=None, extra=None, sigs=None):
    """Standard result dict for run_case."""
    res = {
        "violations": violations,
        "digest": world.digest(),
        "sig": sig_hash(sig),
        "nontrivial": bool(nontrivial),
        "counters": dict(world.net.counters),
        "probes": probes or {},
        "simtime": world.clock.now,
        "steps": world.steps,
        "events": len(world.events),
        "case": case,
        "case_small": case,
    }
    if sigs is not None:
        res["sigs"] = [sig_hash(s) for s in sigs]
    if extra:
        res["extra"] = extra
    return res


def viol(key, detail):
    return {"key": key, "detail": detail}


def tbucket(d, tau):
    if d is None:
        return "-"
    if d < tau:
        return "<"
    if d == tau:
        return "="
    return ">"


def strip_tcp_tx(data: bytes, transport: str) -> bytes:
    return data[2:] if transport == "tcp" else data
