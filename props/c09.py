"""C09 - failures surface only as InverterError, with a correct consecutive-failure count (DESIGN 6/C09)."""
from __future__ import annotations

import asyncio
import itertools

from sim.net import World, DEFAULT_LATENCY
from sim.device import SimInverter
from . import common as C
from . import devices
from .common import EPS, viol
from .c04 import symbol_fault, connect_outcome, SYMBOLS

ID = "C09"
LEVEL = "exploration"
BATCH = 8
RULE = ("(a) api: sequences of 1-5 public coroutines (read_device_info, read_runtime_data, read_sensor, read_setting, "
        "read_settings_data, getters, send_command) of ET/DT/ES objects against a conforming peer with benign "
        "register contents, under C04's fault alphabet plus OS-level errors (send errors, ICMP errors, socket-creation "
        "errors, connect failures; errno in {ECONNREFUSED, ENETUNREACH, EHOSTUNREACH, ECONNRESET}), including errors "
        "that arrive while a kept-alive socket is idle; (b) ident: connect()/discover()/read_device_info() against "
        "peers whose identification blocks are arbitrary checksum-valid bytes (non-ASCII, NUL, UTF-16-looking), and "
        "search_inverters() on a silent network (must be RequestFailedException, not the protocol-level "
        "MaxRetriesException); "
        "(c) count: ALL success/failure histories of length 8 (256) x family x transport on one inverter object plus "
        "all histories of length 5 over {answered, silent, socket error} (every fifth with 'only garbage comes back' "
        "in place of silence: that is a failure, not a refusal) + seeded histories with rejections and garbage.  Oracles: escaping exception is an InverterError (ValueError accepted only "
        "from single-value read_sensor/read_setting and the getters built on them); the loop's exception handler "
        "received nothing; consecutive_failures_count == failures since the last success.  Non-trivial: a fault "
        "fired / non-ASCII identification / a history with a failure.")
ASSUMPTIONS = [
    "a rejected request (Modbus exception answer) neither counts as a failure nor resets the counter (the statement "
    "is silent; this is how the code treats it)",
    "register contents are benign (zero-filled, valid schedule groups) so that decoding problems (C11) stay out",
]
LEVEL_TEXT = ("Seeded exploration of fault scripts through the public API on the simulated loop, with the loop's "
              "exception handler as a monitor for exceptions left in callbacks, plus a complete enumeration of "
              "success/failure histories of length 8 for the failure counter.")
LEVEL_NOTE = "Trusted: transport model incl. synchronous error_received on send errors (CPython selector_events)."
TECHNIQUE = "deterministic simulation with OS-level fault injection through fake transports; loop exception monitor"

N_API = {"quick": 24_000, "thorough": 2_500_000}
N_IDENT = {"quick": 4_000, "thorough": 400_000}
N_COUNT_RANDOM = {"quick": 2_000, "thorough": 100_000}
ERRNOS = [111, 101, 113, 104]
COUNT_CFG = [("ET", "udp"), ("ET", "tcp"), ("DT", "udp"), ("DT", "tcp"), ("ES", "udp")]


def n_count_sweep():
    return (256 + 243) * len(COUNT_CFG)


# a TCP peer that refuses / cannot be reached for > 1000 connection attempts of ONE call (a legal retry budget),
# then accepts; or never accepts
BIG_CONNECT = [(fam, ka, r, n, k) for fam in ("ET", "DT") for ka in (False, True)
               for (r, n) in ((1500, 1099), (1200, 1300)) for k in ("refused", "unreach")]


# overlapping public calls on one object in one event loop and again in a later one (a second asyncio.run)
TWO_LOOPS = [(fam, tr, ka, f2) for fam, tr in (("ET", "udp"), ("ET", "tcp"), ("DT", "udp"), ("ES", "udp"))
             for ka in (False, True) for f2 in ("ok", "drop_all")]


def n_cases(tier):
    return n_count_sweep() + N_COUNT_RANDOM[tier] + N_API[tier] + N_IDENT[tier] + len(BIG_CONNECT) + len(TWO_LOOPS)


API = {
    "ET": ["read_device_info", "read_runtime_data", "read_sensor:vpv1", "read_sensor:modbus-35100",
           "read_setting:grid_export_limit", "read_setting:eco_mode_1", "read_settings_data", "get_grid_export_limit",
           "get_operation_mode", "get_ongrid_battery_dod", "send_command", "read_setting:nonexistent"],
    "DT": ["read_device_info", "read_runtime_data", "read_sensor:vpv1", "read_sensor:modbus-30100",
           "read_setting:grid_export_limit", "read_settings_data", "get_grid_export_limit", "send_command"],
    "ES": ["read_device_info", "read_runtime_data", "read_sensor:vpv1", "read_setting:grid_export_limit",
           "read_setting:eco_mode_1", "read_settings_data", "get_grid_export_limit", "get_operation_mode",
           "get_ongrid_battery_dod", "send_command"],
}
VALUE_ERROR_OK = ("read_sensor", "read_setting", "get_grid_export_limit", "get_operation_mode", "get_ongrid_battery_dod")


def make_case(tier, seed, index):
    rnd = C.rng_for(seed, ID, index)
    i = index
    nb = n_count_sweep() + N_COUNT_RANDOM[tier] + N_API[tier] + N_IDENT[tier]
    if i >= nb + len(BIG_CONNECT):
        fam, tr, ka, f2 = TWO_LOOPS[i - nb - len(BIG_CONNECT)]
        return {"kind": "twoloops", "family": fam, "transport": tr, "keep_alive": ka, "second": f2, "timeout": 0.5,
                "retries": 1}
    if i >= nb:
        fam, ka, r, n, k = BIG_CONNECT[i - nb]
        cf = {"k": k, "d": 0.0}
        if k == "unreach":
            cf["errno"] = 113
        return {"kind": "api", "entry": None, "family": fam, "transport": "tcp", "timeout": 0.25, "retries": r,
                "keep_alive": ka, "calls": ["read_sensor:vpv1", "read_runtime_data"], "idle": [0.0, 0.0],
                "faults": [], "connects": [cf] * n}
    if i < n_count_sweep():
        fam, tr = COUNT_CFG[i // (256 + 243)]
        bits = i % (256 + 243)
        if bits < 256:
            hist = ["ok" if (bits >> j) & 1 else "fail" for j in range(8)]
        else:
            # all histories of length 5 over {answered, silent, socket error}
            x = bits - 256
            hist = []
            for j in range(5):
                hist.append(["ok", "fail", "fail_err"][x % 3])
                x //= 3
            if bits % 5 == 0:
                hist = [("fail_garbage" if h == "fail" else h) for h in hist]
            elif bits % 5 == 1 and tr == "udp":
                hist = [("fail_badexc" if h == "fail" else h) for h in hist]
        return {"kind": "count", "family": fam, "transport": tr, "history": hist, "keep_alive": bool(bits & 1) ^ (fam == "DT"),
                "timeout": 0.5, "retries": 1}
    i -= n_count_sweep()
    if i < N_COUNT_RANDOM[tier] and i % 4 == 3:
        fam, tr = rnd.choice(COUNT_CFG)
        hist = [rnd.choice(["ok", "fail", "fail"]) for _ in range(rnd.choice([2, 4, 6, 8]))]
        return {"kind": "count", "family": fam, "transport": tr, "history": hist, "keep_alive": rnd.random() < 0.5,
                "timeout": 0.5, "retries": rnd.choice([0, 1]), "overlap": True}
    if i < N_COUNT_RANDOM[tier]:
        fam, tr = rnd.choice(COUNT_CFG)
        hist = [rnd.choice(["ok", "fail", "fail_err", "fail_err", "reject", "fail_garbage"] if fam != "ES" else
                           ["ok", "fail", "fail_err", "fail_garbage"])
                for _ in range(rnd.randint(1, 8))]
        return {"kind": "count", "family": fam, "transport": tr, "history": hist, "keep_alive": rnd.random() < 0.5,
                "timeout": rnd.choice([0.25, 1.0]), "retries": rnd.choice([0, 1, 2])}
    i -= N_COUNT_RANDOM[tier]
    if i < N_API[tier]:
        fam = rnd.choice(["ET", "DT", "ES"])
        tr = "udp" if fam == "ES" else rnd.choice(["udp", "tcp"])
        tau = rnd.choice([0.25, 0.5, 1.0])
        r = rnd.choice([0, 1, 2])
        ka = rnd.random() < 0.5
        calls = [rnd.choice(API[fam]) for _ in range(rnd.randint(1, 5))]
        if rnd.random() < 0.7 and calls[0] != "read_device_info":
            calls.insert(0, "read_device_info")
        enabled = [s for s in SYMBOLS if rnd.random() < 0.4] or ["senderr"]
        density = rnd.choice([0.1, 0.3, 0.6])
        faults = []
        for _ in range(rnd.randint(1, 30)):
            if rnd.random() < density:
                f = symbol_fault(rnd.choice(enabled), tr, tau, rnd)
                if f["k"] == "senderr":
                    f["errno"] = rnd.choice(ERRNOS)
                if tr == "udp" and rnd.random() < 0.3:
                    f = dict(f)
                    f["then"] = list(f.get("then", [])) + [{"ev": "icmp", "errno": rnd.choice(ERRNOS),
                                                           "d": rnd.choice([DEFAULT_LATENCY, tau / 2, 3.0, 7.0])}]
                faults.append(f)
            else:
                faults.append({"k": "ok"})
        connects = []
        for _ in range(rnd.randint(0, 8)):
            if rnd.random() < 0.25:
                if tr == "udp":
                    connects.append(rnd.choice([{"k": "sockerr", "errno": rnd.choice(ERRNOS + [24, 13])},
                                                {"k": "dns", "eai": rnd.choice([-2, -3, -5])}]))
                else:
                    connects.append(connect_outcome(rnd.choice(["refused", "unreach", "hang", "ok_slow", "ok_late", "ok_sockopt"]), rnd))
            else:
                connects.append({"k": "ok", "d": 0.0})
        idle = [rnd.choice([0.0, 0.0, 5.0, 10.0]) for _ in calls]
        entry = rnd.choice([None, None, "connect", "discover" if tr == "udp" else "connect"])
        return {"kind": "api", "entry": entry, "family": fam, "transport": tr, "timeout": tau, "retries": r, "keep_alive": ka,
                "calls": calls, "idle": idle, "faults": faults, "connects": connects}
    # identification data
    which = rnd.choice(["discover", "connect:ET", "connect:DT", "connect:ES", "discover:modbus", "search"])
    style = rnd.choice(["random", "highbit", "nul", "utf16", "ascii"])
    n = 80
    if style == "random":
        blob = bytes(rnd.getrandbits(8) for _ in range(n))
    elif style == "highbit":
        blob = bytes(rnd.choice([0xC3, 0xA9, 0xFF, 0x80, 0xE2, 0x41, 0x20]) for _ in range(n))
    elif style == "nul":
        blob = bytes(rnd.choice([0, 0, 0x41, 0x31, 0x20]) for _ in range(n))
    elif style == "utf16":
        blob = b"".join(bytes((0, rnd.choice(b"GW10K-ET59ESU"))) for _ in range(n // 2))
    else:
        blob = bytes(rnd.choice(b"GW5048-ESU0123456789 DTETSNM") for _ in range(n))
    tag = rnd.choice(["", "ETU", "ESU", "DTU", "ETT", "MSU"])
    return {"kind": "ident", "which": which, "style": style, "blob": blob.hex(), "tag": tag,
            "tag_pos": rnd.randint(0, 12), "lowsum": rnd.random() < 0.7}


def simplify(case):
    out = []
    if case["kind"] == "twoloops":
        return out
    if case["kind"] == "api":
        for i, x in enumerate(case["idle"]):
            if x:
                c = dict(case)
                c["idle"] = list(case["idle"])
                c["idle"][i] = 0.0
                out.append(c)
    return out


SHRINK_FROZEN = ("history", "idle")


def _make(goodwe, fam, tr, tau, r, ka):
    port = C.port_of(tr)
    cls = {"ET": goodwe.ET, "DT": goodwe.DT, "ES": goodwe.ES}[fam]
    inv = cls(C.HOST, port, 0, tau, r)
    inv.set_keep_alive(ka)
    return inv


def _device(fam):
    if fam == "ET":
        dev = devices.make_et(fill="zero", comm_addr=None)
        # valid eco groups (off) so that read_settings_data decodes
        for a in (47515, 47519, 47523, 47527):
            dev.set_bytes(a, bytes.fromhex("3000300000640000"))
        for a in (47547, 47553, 47559, 47565, 47589):
            dev.set_bytes(a, bytes.fromhex("300030000000006400640000"))
        dev.set_bytes(45200, bytes([23, 5, 17, 10, 11, 12]))
        dev.set_bytes(35100, bytes([23, 5, 17, 10, 11, 12]))
        dev.set_reg(47000, 3)   # work mode ECO: get_operation_mode() goes on to read eco mode group 1
        return dev
    if fam == "DT":
        dev = devices.make_dt(fill="zero", comm_addr=None)
        dev.set_bytes(40313, bytes([23, 5, 17, 10, 11, 12]))
        dev.set_bytes(30100, bytes([23, 5, 17, 10, 11, 12]))
        return dev
    dev = devices.make_es(runtime=bytes(142), settings=bytes(86), fill="zero")
    dev.set_aa55_bytes(1793, bytes.fromhex("3000300000640000"))
    return dev


def _call(inv, name):
    if ":" in name:
        fn, arg = name.split(":", 1)
        if "=" in arg:
            sid, val = arg.split("=", 1)
            return lambda: getattr(inv, fn)(sid, int(val))
        return lambda: getattr(inv, fn)(arg)
    if name == "send_command":
        return lambda: inv.send_command(bytes.fromhex("f703891c0001"))
    return getattr(inv, name)


def run_twoloops(case):
    goodwe, gp, ge = C.goodwe_mods()
    fam, tr = case["family"], case["transport"]
    world = World(max_steps=200_000)
    dev = _device(fam)
    world.net.add_device(C.HOST, C.port_of(tr), dev)
    inv = _make(goodwe, fam, tr, case["timeout"], case["retries"], case["keep_alive"])
    recs = []
    names = ["read_runtime_data", "read_sensor:vpv1", "read_device_info"]

    async def burst(default):
        world.net.begin_script([], default)
        for name, rec in zip(names, await asyncio.gather(*[C.do_call(world, n, _call(inv, n)) for n in names])):
            recs.append((name, rec))

    status, _ = C.run_world(world, burst({"k": "ok"}))
    if status == "ok":
        status, _ = C.run_world(world, burst({"k": "ok"} if case["second"] == "ok" else {"k": "drop"}))
    violations = []
    if status != "ok":
        violations.append(viol(f"C09:hang:{tr}", f"overlapping calls in two successive event loops: {status}"))
    for name, rec in recs:
        judge(violations, rec, name, tr, "api")
    callback_violations(violations, world, tr)
    sig = ("twoloops", fam, tr, case["keep_alive"], case["second"], tuple(r["outcome"] for _, r in recs))
    return C.package(world, case, violations, sig, True, {"api_calls": len(recs), "two_loop_cases": 1})


def run_case(case):
    if case["kind"] == "twoloops":
        return run_twoloops(case)
    if case["kind"] == "count":
        return run_count(case)
    if case["kind"] == "api":
        return run_api(case)
    return run_ident(case)


def judge(violations, rec, name, tr, entry):
    oc = rec["outcome"]
    if oc in ("result", "rejected", "failed", "maxretries") or oc.startswith("inverter_error:"):
        return
    fn = name.split(":")[0]
    if oc == "other:ValueError" and fn in VALUE_ERROR_OK:
        return
    typ = oc.split(":", 1)[1] if ":" in oc else oc
    where = fn if entry in ("api", "count") else name
    violations.append(viol(f"C09:leak:{typ}:{where}",
                           f"{name} failed with {rec.get('exc')!r} (not an InverterError)"))


def callback_violations(violations, world, tr):
    for le in world.loop_exceptions:
        violations.append(viol(f"C09:callback:{le['exc_type']}:{tr}",
                               f"unhandled exception in an event-loop callback at t={le['t']}: {le['exc']} ({le['message']})"))
        break


def run_api(case):
    goodwe, gp, ge = C.goodwe_mods()
    fam, tr = case["family"], case["transport"]
    world = World(faults=case["faults"], connects=case["connects"], max_steps=200_000)
    dev = _device(fam)
    world.net.add_device(C.HOST, C.port_of(tr), dev)
    inv = _make(goodwe, fam, tr, case["timeout"], case["retries"], case["keep_alive"])
    recs = []

    holder = {"inv": inv}

    async def main():
        inv = holder["inv"]
        if case.get("entry"):
            # obtain the object through the public entry point, under the same fault script
            if case["entry"] == "connect":
                rec = await C.do_call(world, "connect", lambda: goodwe.connect(C.HOST, C.port_of(tr), fam, 0, case["timeout"],
                                                                              case["retries"]))
            else:
                rec = await C.do_call(world, "discover", lambda: goodwe.discover(C.HOST, C.UDP_PORT, case["timeout"],
                                                                               case["retries"]))
            recs.append((case["entry"], rec))
            if rec["outcome"] == "result" and rec["value"] is not None:
                inv = rec["value"]
                inv.set_keep_alive(case["keep_alive"])
        for name, idle in zip(case["calls"], case["idle"]):
            if name.split(":")[0] in ("read_sensor", "read_setting") and type(inv).__name__ != fam:
                continue   # discover() may have detected another family: ids differ
            recs.append((name, await C.do_call(world, name, _call(inv, name))))
            if idle:
                await asyncio.sleep(idle)
        await asyncio.sleep(8.0)  # let straggling network events arrive on an idle object

    status, _ = C.run_world(world, main())
    violations = []
    if status != "ok":
        violations.append(viol(f"C09:hang:{tr}", f"api sequence did not terminate: {status}"))
    for name, rec in recs:
        judge(violations, rec, name, tr, "api")
    callback_violations(violations, world, tr)
    net = world.net
    fired = sorted({t["fault"] for t in net.transmissions if t["fault"] != "ok"})
    sig = (fam, tr, case["keep_alive"], tuple(n for n, _ in recs), tuple(r["outcome"] for _, r in recs),
           tuple(fired), tuple(c["outcome"] for c in net.connect_log))
    nontrivial = bool(fired) or any(c["outcome"] != "ok" for c in net.connect_log)
    idle_err = sum(1 for d in net.deliveries if d["kind"] == "icmp" and d["status"] == "delivered")
    probes = {"api_calls": len(recs), "icmp_delivered": idle_err,
              "outcome_failed": sum(1 for _, r in recs if r["outcome"] in ("failed", "maxretries")),
              "outcome_rejected": sum(1 for _, r in recs if r["outcome"] == "rejected")}
    return C.package(world, case, violations, sig, nontrivial, probes)


def run_count(case):
    goodwe, gp, ge = C.goodwe_mods()
    fam, tr = case["family"], case["transport"]
    world = World(max_steps=100_000)
    dev = _device(fam)
    world.net.add_device(C.HOST, C.port_of(tr), dev)
    inv = _make(goodwe, fam, tr, case["timeout"], case["retries"], case["keep_alive"])
    name = {"ES": "read_runtime_data", "ET": "read_sensor:modbus-35100", "DT": "read_sensor:modbus-30100"}[fam]
    if fam == "ET" and len(case["history"]) % 2 == 0 and not case.get("overlap"):
        # the same histories through a WRITE of a one-byte setting (a read-modify-write: the failure hits its first half)
        name = "write_setting:eco_mode_1_switch=0"
    elif fam == "DT" and len(case["history"]) % 2 == 0 and not case.get("overlap"):
        name = "write_setting:grid_export_limit=50"
    recs = []

    async def overlapped():
        # the history in groups of two OVERLAPPING calls (the second one is issued while the first is in progress and
        # queues for the lock); the count reported by each failure must still be the number of failures since the last
        # success, in the order in which the calls end
        r = case["retries"]
        hist = case["history"]
        for g in range(0, len(hist), 2):
            group = hist[g:g + 2]
            faults = []
            for h in group:
                faults += [{"k": "drop"}] * (r + 1) if h == "fail" else [{"k": "ok"}]
            world.net.begin_script(faults, {"k": "ok"})

            async def one(h, delay):
                if delay:
                    await asyncio.sleep(delay)
                recs.append((h, await C.do_call(world, name, _call(inv, name))))

            await asyncio.gather(*[one(h, j * EPS) for j, h in enumerate(group)])

    async def main():
        if case.get("overlap"):
            await overlapped()
            return
        for h in case["history"]:
            if h == "ok":
                world.net.begin_script([], {"k": "ok"})
            elif h == "fail":
                world.net.begin_script([], {"k": "drop"})
            elif h == "fail_garbage":
                # nothing but garbage comes back: no valid answer was obtained (a failure, not a refusal)
                world.net.begin_script([], {"k": "garbage", "n": 12, "seed": len(recs) + 1})
            elif h == "fail_badexc":
                # every answer is damaged in flight so that its checksum is wrong and its function byte has the high
                # bit set (a damaged exception frame / a read answer with 03 -> 83): not a refusal by the inverter
                if len(recs) % 2:
                    world.net.begin_script([], {"k": "exc", "code": 2, "ops": [["flip", 6 * 8 + 1]]})
                else:
                    world.net.begin_script([], {"k": "mut", "ops": [["flip", 3 * 8 + 7]]})
            elif h == "fail_err":
                # an OS-level socket error ends the request (UDP: reported through error_received; TCP: every
                # connect attempt is refused)
                e = [111, 113, 101, 104][len(recs) % 4]
                if tr == "udp":
                    world.net.begin_script([{"k": "senderr", "errno": e}] if len(recs) % 2 else
                                           [{"k": "drop", "then": [{"ev": "icmp", "d": 0.125, "errno": e}]}], {"k": "drop"})
                else:
                    world.net.begin_script([], {"k": "drop"}, [], {"k": "refused", "d": 0.0})
                    inv._protocol._close_transport() if False else None
            else:
                world.net.begin_script([{"k": "exc", "code": 4}], {"k": "ok"})
            recs.append((h, await C.do_call(world, name, _call(inv, name))))

    status, _ = C.run_world(world, main())
    violations = []
    if status != "ok":
        violations.append(viol(f"C09:hang:{tr}", f"history did not terminate: {status}"))
    streak = 0
    for j, (h, rec) in enumerate(recs):
        judge(violations, rec, name, tr, "count")
        if h == "ok":
            if rec["outcome"] != "result":
                violations.append(viol(f"C09:count:{fam}:{tr}:ok-failed", f"request {j} (answered) ended {rec['outcome']}"))
            streak = 0
        elif h in ("fail", "fail_err", "fail_garbage", "fail_badexc"):
            streak += 1
            if rec["outcome"] != "failed":
                why = {"fail": "silent peer", "fail_err": "socket error", "fail_garbage": "only garbage received",
                       "fail_badexc": "only checksum-damaged exception-looking frames received"}[h]
                violations.append(viol(f"C09:count:{fam}:{tr}:not-failed:{h}",
                                       f"request {j} ({why}) ended {rec['outcome']} {rec.get('exc')!r}, expected "
                                       f"RequestFailedException"))
            else:
                got = getattr(rec["exc"], "consecutive_failures_count", None)
                if got != streak:
                    violations.append(viol(f"C09:count:{fam}:{tr}",
                                           f"history {case['history'][:j + 1]}: consecutive_failures_count={got}, "
                                           f"expected {streak}"))
        else:
            if rec["outcome"] != "rejected":
                violations.append(viol(f"C09:count:{fam}:{tr}:not-rejected", f"request {j} ended {rec['outcome']}"))
        if violations:
            break
    callback_violations(violations, world, tr)
    sig = (fam, tr, case["keep_alive"], tuple(case["history"]))
    return C.package(world, case, violations, sig, any(h != "ok" for h in case["history"]),
                     {"count_histories": 1})


def run_search(case):
    """search_inverters() on a silent network / with garbage: no valid answer -> RequestFailedException."""
    goodwe, gp, ge = C.goodwe_mods()
    world = World(max_steps=100_000)
    world.net.begin_script([], {"k": "drop"})
    # ... or the broadcast socket meets an OS-level error: it cannot be created, the send fails, an ICMP error comes back
    mode = case.get("tag_pos", 0) % 4
    if mode == 1:
        world.net.begin_script([], {"k": "drop"}, [{"k": "sockerr", "errno": [13, 101, 24][case.get("tag_pos", 0) % 3]}])
    elif mode == 2:
        world.net.begin_script([{"k": "senderr", "errno": 101}], {"k": "drop"})
    elif mode == 3:
        world.net.begin_script([{"k": "drop", "then": [{"ev": "icmp", "d": 0.125, "errno": 113}]}], {"k": "drop"})
    state = {}

    async def main():
        state["rec"] = await C.do_call(world, "search", goodwe.search_inverters)

    status, _ = C.run_world(world, main())
    violations = []
    rec = state.get("rec")
    if status != "ok" or rec is None:
        violations.append(viol("C09:hang:search", f"did not terminate: {status}"))
    elif rec["outcome"] != "failed":
        violations.append(viol(f"C09:classification:search_inverters:{rec['outcome']}",
                               f"search_inverters() on a silent network ended with {rec.get('exc')!r}; no valid answer "
                               f"was obtained, so RequestFailedException is expected"))
    callback_violations(violations, world, "udp")
    return C.package(world, case, violations, ("search", mode, rec["outcome"] if rec else status), True, {"search_runs": 1})


def run_ident(case):
    goodwe, gp, ge = C.goodwe_mods()
    which = case["which"]
    if which == "search":
        return run_search(case)
    blob = bytearray(bytes.fromhex(case["blob"]))
    if case["tag"]:
        pos = 31 + case["tag_pos"] if which.startswith("discover") or which == "connect:ES" else 6 + case["tag_pos"]
        blob[pos:pos + 3] = case["tag"].encode()
    if case["lowsum"]:
        # keep the AA55 byte sum below 0x8000 so that the frame is accepted on the current tree (C02's subject)
        blob = bytearray(b & 0x7F if i % 2 else b & 0x3F | (b & 0x80 if i % 5 == 0 else 0) for i, b in enumerate(blob))
        if case["tag"]:
            blob[pos:pos + 3] = case["tag"].encode()
    blob = bytes(blob)
    world = World(max_steps=200_000)
    violations = []
    state = {}
    tr = "udp"
    if which in ("discover", "connect:ES"):
        dev = devices.make_es(runtime=bytes(142), settings=bytes(86), fill="zero", eco_v2_modbus=False)
        dev.blocks[0x0102] = blob
        dev.modbus = True  # a modbus-capable peer as well, so that the fall-through probes get answers
        dev.comm_addr = None
        for a, b in ((35000, blob[:66]), (30001, blob[:80])):
            dev.set_bytes(a, b + bytes(len(b) % 2))
    elif which == "connect:ET" or which == "discover:modbus":
        dev = devices.make_et(fill="zero", comm_addr=None, restrict=False)
        dev.set_bytes(35000, blob[:66])
        dev.set_bytes(30001, blob[:80])
        dev.set_bytes(40173, blob[40:56])
    else:
        dev = devices.make_dt(fill="zero", comm_addr=None, restrict=False)
        dev.set_bytes(30001, blob[:80])
        dev.set_bytes(40173, blob[40:56])
        dev.set_bytes(30063, blob[20:60])
    world.net.add_device(C.HOST, C.UDP_PORT, dev)

    async def main():
        if which.startswith("discover"):
            state["rec"] = await C.do_call(world, "discover", lambda: goodwe.discover(C.HOST, C.UDP_PORT, 1, 1))
        else:
            fam = which.split(":")[1]
            state["rec"] = await C.do_call(world, "connect", lambda: goodwe.connect(C.HOST, C.UDP_PORT, fam, 0, 1, 1))

    status, _ = C.run_world(world, main())
    if status != "ok":
        violations.append(viol("C09:hang:ident", f"{which} did not terminate: {status}"))
    rec = state.get("rec")
    if rec is not None:
        judge(violations, rec, which, tr, which.split(":")[0])
    callback_violations(violations, world, tr)
    nonascii = any(b >= 0x80 or b < 0x20 for b in blob)
    sig = (which, case["style"], case["tag"], rec["outcome"] if rec else status, blob[:8])
    return C.package(world, case, violations, sig, nonascii, {"ident_runs": 1,
                                                               "ident_success": 1 if rec and rec["outcome"] == "result" else 0})
