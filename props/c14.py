"""C14 - sensors are decoded only from registers that were actually fetched (DESIGN 6/C14)."""
from __future__ import annotations

from sim import refdecode as R
from . import common as C
from . import configs
from .common import viol

ID = "C14"
LEVEL = "exploration"
BATCH = 8
RULE = ("(Every third configuration runs over Modbus/TCP, half of those against a device announcing a wrong MBAP "
        "message length: a full-length answer stays full-length.)  COMPLETE enumeration of configurations through the public API against the simulated inverter: every ET model "
        "tag of model.py plus an untagged serial x rated power {3000, 15000, 25000, 30000} (serial power codes 003K, "
        "015K, 025K, 29K9 so that the '25KET'/'29K9ET' substrings occur) x every combination of supported/refused "
        "optional blocks {battery, battery2, meter basic/extended/extended-2, MPPT, eco-mode-v2, peak shaving}; every "
        "DT tag x meter supported/refused.  Each run: read_device_info then three read_runtime_data with battery "
        "present/absent patterns (every second configuration with one whole request of the first poll lost incl. its "
        "retransmissions); the peer answers EXACT-length frames.  Two monitors: (1) for every id in a result "
        "whose class has a documented width, its own registers [offset, offset+ceil(width/2)) must lie inside a "
        "window that was successfully fetched in that call (from the peer's request log); (2) ProtocolResponse.read "
        "is wrapped in the simulation child (no hook in /repo): any read returning fewer bytes than requested is "
        "recorded.  Non-trivial: every configuration; distinct: (family, tag, power, capability flags).")
ASSUMPTIONS = [
    "widths per sensor class from the class docstrings (Apparent4/Reactive4 interpret 4 bytes although they declare 2)",
    "monitor (2) wraps goodwe.protocol.ProtocolResponse.read when it exists; monitor (1) needs only the public API",
]
LEVEL_TEXT = ("Exhaustive enumeration of the finite configuration space of the quantifier (exhaustive: true), executed "
              "end-to-end on the simulated loop; windows come from the peer's request log, not from the library.")
LEVEL_NOTE = "Trusted: peer model's exact-length answers and request log; class widths."
TECHNIQUE = "deterministic simulation, complete configuration enumeration; window-containment and short-read monitors"


def n_cases(tier):
    return len(configs.SPACE())


def warm(tier):
    configs.SPACE()


def exhaustive(tier):
    return True


def make_case(tier, seed, index):
    case = configs.make_case(index, seed)
    if index % 2 == 1 and not case["lossy"]:
        # transient network failure of one whole request (incl. retries) of the first poll, e.g. of a fallback read:
        # whatever state it leaves behind must not make later polls decode outside what they fetch
        case["fail_request"] = (index // 2) % 6
    return case


def simplify(case):
    out = []
    if case.get("lossy"):
        out.append(dict(case, lossy=False))
    if case.get("fail_request") is not None:
        c = dict(case)
        c.pop("fail_request")
        out.append(c)
    return out


SHRINK_FROZEN = ("flags", "battery_modes")


def run_case(case):
    obs = configs.run_config(case, monitor_reads=True)
    world, dev, fam = obs["world"], obs["dev"], obs["family"]
    violations = []
    keys = set()
    checked = 0
    if obs["status"] != "ok":
        violations.append(viol(f"C14:hang:{fam}", f"did not terminate: {obs['status']}"))
    if obs["info"] is None or obs["info"]["outcome"] != "result":
        violations.append(viol(f"C14:setup:{fam}", f"read_device_info failed: {obs['info'] and obs['info']['outcome']}"))
    if fam != "ES":
        for pi, poll in enumerate(obs["polls"]):
            rec = poll["rec"]
            if rec["outcome"] != "result":
                continue
            wins = []
            for q in poll["requests"]:
                if q.get("fc") == 3 and dev.exc_code_for(q["reg"], max(q["count"], 1)) is None:
                    wins.append((q["reg"], q["reg"] + q["count"]))
            last = {}
            for s in poll["sensors"]:
                last[s.id_] = s
            for sid in rec["value"]:
                s = last.get(sid)
                if s is None:
                    continue
                cls = type(s).__name__
                if cls not in R.WIDTH:
                    continue
                n = (R.WIDTH[cls] + 1) // 2
                checked += 1
                if not any(lo <= s.offset and s.offset + n <= hi for lo, hi in wins):
                    blk = next((lo for lo, hi in wins if lo <= s.offset < hi), None)
                    if blk is None:
                        blk = max((lo for lo, hi in wins if lo <= s.offset), default=None)
                    key = f"C14:short-read:{fam}.{blk}:{sid}"
                    if key not in keys:
                        keys.add(key)
                        violations.append(viol(key, f"{obs['serial']} flags={case['flags']}: {sid} ({cls} @ {s.offset}, "
                                               f"{n} registers) is reported but not inside any fetched window {wins}"))
            for sr in poll["short_reads"]:
                if sr["first"] is None:
                    continue
                addr = sr["first"] + (sr["pos"] or 0) // 2
                cands = [s.id_ for s in poll["sensors"] if s.offset <= addr < s.offset + max(1, (R.WIDTH.get(type(s).__name__, 2) + 1) // 2)]
                sid = cands[-1] if cands else f"@{addr}"
                key = f"C14:short-read:{fam}.{sr['first']}:{sid}"
                if key not in keys:
                    keys.add(key)
                    violations.append(viol(key, f"{obs['serial']} flags={case['flags']}: decoding the answer to read("
                                           f"{sr['first']}, {sr['count']}) asked for {sr['size']} bytes at byte "
                                           f"{sr['pos']} (register {addr}) and got {sr['got']}"))
    for sg in obs.get("singles", []):
        for sr in sg["short_reads"]:
            if sr["first"] is None:
                continue
            addr = sr["first"] + (sr["pos"] or 0) // 2
            cands = [s.id_ for s in sg["sensors"] if s.offset <= addr < s.offset + max(1, (R.WIDTH.get(type(s).__name__, 2) + 1) // 2)]
            sid = cands[-1] if cands else f"@{addr}"
            key = f"C14:short-read:{fam}.{sr['first']}:{sid}"
            if key not in keys:
                keys.add(key)
                violations.append(viol(key, f"{obs['serial']} flags={case['flags']}: read_sensor({sg['id']!r}): decoding "
                                       f"the answer to read({sr['first']}, {sr['count']}) asked for {sr['size']} bytes "
                                       f"at byte {sr['pos']} (register {addr}) and got {sr['got']}"))
    world.events = []
    world.log("summary", fam, obs["serial"], case["flags"], [p["rec"]["outcome"] for p in obs["polls"]], sorted(keys))
    sig = (fam, case["tag"], case["power"], tuple(case["flags"]))
    return C.package(world, case, violations, sig, True, {"configs": 1, "sensor_windows_checked": checked,
                                                         "polls": len(obs["polls"]),
                                                         "single_reads_monitored": len(obs.get("singles", []))})
