"""C18 - reading never writes, and invalid setter arguments never reach the inverter (DESIGN 6/C18)."""
from __future__ import annotations

import asyncio
import random

from sim.net import World
from . import common as C
from . import configs
from . import devices
from .common import viol
from .c04 import symbol_fault, SYMBOLS

ID = "C18"
LEVEL = "exploration"
BATCH = 1
RULE = ("Monitor in the PEER: every frame it receives (including frames lost in flight) is parsed by the independent "
        "codec and attributed to the API call in progress; a write function (Modbus 06/16, AA55 02xx/03xx) during a "
        "monitoring call is the violation.  (a) read-only sequences: connect/discover, read_device_info, "
        "read_runtime_data x3, read_sensor, read_setting (every id), read_settings_data, get_grid_export_limit, "
        "get_operation_modes, get_operation_mode, get_ongrid_battery_dod over a stride of the complete C15 "
        "configuration space (all model tags, power classes, refused-block combinations), half of them under C04's "
        "fault alphabet (retries must not turn into writes) and half of them AFTER valid setter calls on the same "
        "object (work mode, export limit, eco-mode charge ...), so that state left by writes cannot leak into reads; a "
        "third of them with CALLER-SIDE CANCELLATION of read-only calls after 0-3 loop iterations or a short while "
        "(what asyncio.wait_for around a call does), including while a TCP connect is in progress; "
        "(b) invalid arguments: set_grid_export_limit, set_ongrid_battery_dod, set_operation_mode(ECO_CHARGE/"
        "ECO_DISCHARGE, power, soc), write_setting(unknown id) and the raw access write_setting('modbus-<n>', v) with a "
        "register number outside 0..65535 or a value that does not fit a register, with integer arguments swept over [-70000, 70000] "
        "around the valid intervals (all boundary values +-3, powers of two, seeded values): no write frame at all, "
        "ValueError for eco power/SoC out of 0..100 and unknown ids.  Non-trivial: every case; distinct: "
        "(configuration, calls, fault kinds) / (family, setter, argument).")
ASSUMPTIONS = [
    "write functions are Modbus 0x06/0x10 and AA55 commands 0x02xx/0x03xx",
    "negative export limit and DoD outside 0..100 are silently ignored (no ValueError documented); eco power/SoC "
    "outside 0..100 and unknown setting ids raise ValueError",
]
LEVEL_TEXT = ("Exploration over the configuration space and call histories with a device-side write monitor; the "
              "argument sweep covers every boundary of every guarded setter.")
LEVEL_NOTE = "Trusted: independent codec's classification of frames."
TECHNIQUE = "deterministic simulation: device-side write monitor over read-only API histories and setter argument sweeps"

STRIDE = {"quick": 11, "thorough": 1}
N_INVALID = {"quick": 600, "thorough": 30000}
INVALID_KINDS = ["export", "dod", "eco_power", "eco_soc", "unknown_id", "raw_register", "raw_value", "refused_id"]
READ_CALLS = ["read_device_info", "read_runtime_data", "read_runtime_data", "read_sensor", "read_setting_all",
              "read_settings_data", "get_grid_export_limit", "get_operation_modes", "get_operation_mode",
              "get_ongrid_battery_dod", "read_runtime_data"]


def n_readonly(tier):
    return (len(configs.SPACE()) + STRIDE[tier] - 1) // STRIDE[tier]


def n_cases(tier):
    return n_readonly(tier) + N_INVALID[tier] + 40


def warm(tier):
    configs.SPACE()


def make_case(tier, seed, index):
    rnd = C.rng_for(seed, ID, index)
    nr = n_readonly(tier)
    if index < nr:
        ci = (index * STRIDE[tier] + seed) % len(configs.SPACE())
        case = configs.make_case(ci, seed)
        case["kind"] = "readonly"
        case["after_setters"] = index % 2 == 1
        case["faulty"] = index % 4 >= 2
        if case["faulty"]:
            tr = case["transport"]
            en = [s for s in SYMBOLS if rnd.random() < 0.5] or ["drop"]
            case["faults"] = [symbol_fault(rnd.choice(en), tr, 1.0, rnd) if rnd.random() < 0.3 else {"k": "ok"}
                              for _ in range(rnd.randint(4, 40))]
        else:
            case["faults"] = []
        case["lossy"] = False
        case["cancel"] = index % 3 == 1
        if case["cancel"] and case["transport"] == "tcp":
            case["connects_slow"] = True
        return case
    index -= nr
    if index < 40:
        return {"kind": "entry", "which": ["connect:ET", "connect:DT", "connect:ES", "discover"][index % 4],
                "seed": index, "transport": "udp"}
    index -= 40
    fam = ["ET", "ES", "DT", "ETv1", "ETnoeco"][index % 5]
    kind = INVALID_KINDS[(index // 5) % len(INVALID_KINDS)]
    base = {"export": [-1, -2, -3, -70000, -32768, -32769, -65536, -65537, -(1 << 31)],
            "dod": [-1, -2, 101, 102, 103, 255, 256, 65536, 70000, -70000, -128, 128, 1000],
            "eco_power": [-1, -2, 101, 102, 256, 1000, 70000, -70000, -100, 200],
            "eco_soc": [-1, -2, 101, 102, 256, 1000, 70000, -70000, -100, 200],
            # 0: an id that is nothing at all; n > 0: the id of a SENSOR that is not a setting, after that sensor was read
            "unknown_id": [0, 1, 2, 3, 5, 8, 13, 21],
            # the raw register access 'modbus-<n>': register numbers that do not exist / values that do not fit a register
            "raw_register": [-1, -5, -65536, 65536, 65537, 99999, 70000, 1 << 20, (1 << 16) + 47000],
            "raw_value": [65536, 70000, -32769, -65536, 1 << 20, -(1 << 20), 99999],
            # a setting whose register THIS inverter refuses (ILLEGAL DATA ADDRESS): once the library has learnt that
            # from a read, the id is an unknown setting id for this object
            "refused_id": [0, 1, 2, 3, 5, 8, 13, 21, 34]}[kind]
    args = base + [rnd.choice([-1, 1]) * rnd.randrange(101, 70000) for _ in range(6)]
    if kind == "export":
        args = base + [-rnd.randrange(1, 70000) for _ in range(6)]
    if kind == "refused_id":
        args = base + [rnd.randrange(0, 200) for _ in range(4)]
    if kind == "unknown_id":
        args = base + [rnd.randrange(1, 300) for _ in range(6)]
    if kind == "raw_register":
        args = base + [rnd.choice([-rnd.randrange(1, 70000), 65536 + rnd.randrange(0, 200000)]) for _ in range(6)]
    if kind == "raw_value":
        args = base + [rnd.choice([-32769 - rnd.randrange(0, 100000), 65536 + rnd.randrange(0, 100000)]) for _ in range(6)]
    return {"kind": "invalid", "family": fam, "setter": kind, "args": args, "transport": "udp" if index % 2 else "tcp",
            "seed": index}


def simplify(case):
    out = []
    if case.get("faulty"):
        out.append(dict(case, faulty=False, faults=[]))
    if case.get("after_setters"):
        out.append(dict(case, after_setters=False))
    return out


SHRINK_FROZEN = ("flags", "battery_modes")


def is_write(p):
    if p.get("framing") in ("rtu", "tcp"):
        return p.get("fc") in (6, 16)
    if p.get("framing") == "aa55":
        return (p.get("cmd", 0) >> 8) in (2, 3)
    return False


def writes_during(dev, labels):
    out = []
    for p in list(dev.requests) + list(dev.lost):
        if is_write(p) and p.get("call") in labels:
            out.append(p)
    return out


def run_case(case):
    if case["kind"] == "readonly":
        return run_readonly(case)
    if case["kind"] == "entry":
        return run_entry(case)
    return run_invalid(case)


def _build(goodwe, fam, tr, serial=None, power=10000, caps=None, flags=None, seed=1, es_fw="2525B"):
    if fam == "ET":
        dev = devices.make_et(serial=serial or "9010KETU000W0001", rated_power=power,
                              caps=caps if caps is not None else devices.ALL_ET_CAPS, seed=seed, fill="zero",
                              comm_addr=None, battery_mode=1)
        for a in (47515, 47519, 47523, 47527):
            dev.set_bytes(a, bytes.fromhex("3000300000640000"))
        for a in (47547, 47553, 47559, 47565):
            dev.set_bytes(a, bytes.fromhex("300030000000006400640000"))
        dev.set_bytes(47589, bytes.fromhex("300030000300006400640000"))
        dev.set_bytes(45200, bytes([23, 5, 17, 10, 11, 12]))
        inv = goodwe.ET(C.HOST, C.port_of(tr), 0, 1, 2)
    elif fam == "DT":
        dev = devices.make_dt(serial=serial or "9010KDTU000W0001", meter=True if flags is None else bool(flags[0]), seed=seed,
                              fill="zero", comm_addr=None)
        dev.set_bytes(40313, bytes([23, 5, 17, 10, 11, 12]))
        inv = goodwe.DT(C.HOST, C.port_of(tr), 0, 1, 2)
    else:
        dev = devices.make_es(serial=serial or "95048ESU000W0001", firmware=es_fw, seed=seed, fill="zero",
                              runtime=bytes(142), settings=bytes(86), eco_v2_modbus=True)
        dev.comm_addr = None
        dev.set_aa55_bytes(1793, bytes.fromhex("3000300000640000"))
        for a in (47547, 47553, 47559, 47565):
            dev.set_bytes(a, bytes.fromhex("300030000000006400640000"))
        inv = goodwe.ES(C.HOST, C.port_of(tr), 0, 1, 2)
    return dev, inv


def run_readonly(case):
    goodwe, gp, ge = C.goodwe_mods()
    import goodwe as gw
    fam = case["family"]
    tr = case["transport"] if fam != "ES" else "udp"
    pcode, power = configs.POWERS[case["power"]]
    serial = ("9" + pcode + case["tag"] + "000W0001")[:16]
    world = World(max_steps=3_000_000)
    if fam == "ET":
        dev, inv = _build(goodwe, fam, tr, serial, power, configs.caps_of(case["flags"]), seed=case["seed"])
    elif fam == "DT":
        dev, inv = _build(goodwe, fam, tr, serial, flags=case["flags"], seed=case["seed"])
    else:
        dev, inv = _build(goodwe, fam, tr, serial, seed=case["seed"], es_fw=case["flags"][0])
    world.net.add_device(C.HOST, C.port_of(tr), dev)
    world.events = _Quiet()
    ro_labels = set()
    calls = []

    ncall = [0]

    async def ro(name, fn, force_cancel=None):
        label = "RO:" + name
        ro_labels.add(label)
        dev.label = label
        ncall[0] += 1
        cancel_after = force_cancel
        if force_cancel is None and case.get("cancel") and name != "read_device_info" and (ncall[0] * 7 + case["seed"]) % 3 == 0:
            # the CALLER gives up: the task is cancelled after a few loop iterations / a short while (wait_for-style)
            cancel_after = [0, 1, 2, 3, 0.0005, 0.002, 0.05, 0.3][(ncall[0] + case["seed"]) % 8]
        if cancel_after is None:
            rec = await C.do_call(world, label, fn)
        else:
            task = asyncio.ensure_future(C.do_call(world, label, fn))
            task.set_name("ro-call")
            if isinstance(cancel_after, int):
                for _ in range(cancel_after):
                    await asyncio.sleep(0)
            else:
                await asyncio.sleep(cancel_after)
            task.cancel()
            try:
                rec = await task
            except asyncio.CancelledError:
                rec = {"outcome": "cancelled"}
            # let the library finish whatever the swallowed cancellation started
            await asyncio.sleep(5.0)
        dev.label = None
        calls.append((name, rec["outcome"]))
        return rec

    async def rw(name, fn):
        dev.label = "RW:" + name
        rec = await C.do_call(world, "RW:" + name, fn)
        dev.label = None
        return rec

    async def main():
        info = await ro("read_device_info", inv.read_device_info)
        if info["outcome"] != "result":
            return
        if case["after_setters"]:
            if fam != "DT":
                for m in (gw.OperationMode.OFF_GRID, gw.OperationMode.ECO_CHARGE, gw.OperationMode.GENERAL):
                    await rw("set_operation_mode", lambda m=m: inv.set_operation_mode(m, 1, 1))
                await rw("set_ongrid_battery_dod", lambda: inv.set_ongrid_battery_dod(99))
            await rw("set_grid_export_limit", lambda: inv.set_grid_export_limit(1))
            for sid in ("grid_export", "shadow_scan", "work_mode", "grid_export_limit"):
                if sid in {s.id_ for s in inv.settings()} and fam != "ES":
                    await rw("write_setting", lambda sid=sid: inv.write_setting(sid, 1))
        world.net.begin_script(case["faults"], {"k": "ok"}, [], {"k": "ok", "d": 0.01} if case.get("connects_slow") else None)
        if case["after_setters"] and case.get("cancel"):
            # a write, then IMMEDIATELY a read-only call that its caller cancels while it is being set up
            points = [1, 2, 3, 0.0005, 0.002, 0.011, 0.05]
            pairs = [("set_grid_export_limit", lambda: inv.set_grid_export_limit(2), "get_grid_export_limit", inv.get_grid_export_limit)]
            if fam != "DT":
                pairs.append(("set_ongrid_battery_dod", lambda: inv.set_ongrid_battery_dod(50), "get_ongrid_battery_dod",
                              inv.get_ongrid_battery_dod))
                pairs.append(("set_operation_mode", lambda: inv.set_operation_mode(gw.OperationMode.GENERAL),
                              "get_operation_mode", inv.get_operation_mode))
                pairs.append(("set_operation_mode", lambda: inv.set_operation_mode(gw.OperationMode.BACKUP),
                              "read_runtime_data", inv.read_runtime_data))
            for j, (sn, sf, gn, gf) in enumerate(pairs * 2):
                await rw(sn, sf)
                await ro(gn, gf, force_cancel=points[(j + case["seed"]) % len(points)])
        for name in READ_CALLS:
            if name == "read_sensor":
                ids = [s.id_ for s in inv.sensors()]
                for sid in ids[::max(1, len(ids) // 6)]:
                    await ro("read_sensor", lambda sid=sid: inv.read_sensor(sid))
                await ro("read_sensor", lambda: inv.read_sensor("modbus-35100"))
            elif name == "read_setting_all":
                for s in list(inv.settings()):
                    if fam == "ES" and s.id_ == "time":
                        continue
                    await ro("read_setting", lambda sid=s.id_: inv.read_setting(sid))
            elif name == "get_operation_modes":
                await ro(name, lambda: inv.get_operation_modes(True))
            else:
                await ro(name, getattr(inv, name))

    status, _ = C.run_world(world, main())
    violations = []
    if status != "ok":
        violations.append(viol(f"C18:hang:{fam}", f"did not terminate: {status}"))
    bad = writes_during(dev, ro_labels)
    seen = set()
    for p in bad:
        key = f"C18:read-wrote:{fam}:{p['call'][3:]}"
        if key in seen:
            continue
        seen.add(key)
        violations.append(viol(key, f"{serial} flags={case['flags']}: during {p['call'][3:]} the inverter received the write "
                               f"frame {p['raw'].hex()}" + (" (after setter calls on the same object)" if case["after_setters"] else "")))
    world.events = []
    world.log("summary", fam, serial, case["flags"], len(calls), len(dev.requests), len(dev.write_log), sorted(seen))
    sig = (fam, case["tag"], case["power"], tuple(case["flags"]), case["after_setters"], tuple(f["k"] for f in case["faults"][:8]))
    return C.package(world, case, violations, sig, True,
                     {"readonly_calls": len(calls), "frames_monitored": len(dev.requests) + len(dev.lost),
                      "writes_by_setters": len(dev.write_log)})


def run_entry(case):
    goodwe, gp, ge = C.goodwe_mods()
    which = case["which"]
    world = World(max_steps=1_000_000)
    fam = which.split(":")[1] if ":" in which else ["ET", "DT", "ES"][case["seed"] % 3]
    dev, _ = _build(goodwe, fam, "udp", seed=case["seed"])
    if which == "discover":
        dev.aa55 = case["seed"] % 2 == 0 or fam == "ES"
    world.net.add_device(C.HOST, C.UDP_PORT, dev)
    world.events = _Quiet()
    state = {}

    async def main():
        dev.label = "RO:" + which
        if which == "discover":
            state["rec"] = await C.do_call(world, which, lambda: goodwe.discover(C.HOST, C.UDP_PORT, 1, 1))
        else:
            state["rec"] = await C.do_call(world, which, lambda: goodwe.connect(C.HOST, C.UDP_PORT, fam, 0, 1, 1))
        dev.label = None

    status, _ = C.run_world(world, main())
    violations = []
    for p in writes_during(dev, {"RO:" + which}):
        violations.append(viol(f"C18:read-wrote:{fam}:{which}", f"{which} transmitted the write frame {p['raw'].hex()}"))
        break
    world.events = []
    world.log("summary", which, fam, len(dev.requests), state.get("rec", {}).get("outcome"))
    return C.package(world, case, violations, ("entry", which, fam, case["seed"] % 2), True,
                     {"entry_calls": 1, "frames_monitored": len(dev.requests)})


def run_invalid(case):
    goodwe, gp, ge = C.goodwe_mods()
    import goodwe as gw
    fam, tr, kind = case["family"], case["transport"], case["setter"]
    if fam == "ES":
        tr = "udp"
    world = World(max_steps=1_000_000)
    if fam == "ETv1":
        # firmware without the 12-byte eco groups: the probe of 47547 is refused
        dev, inv = _build(goodwe, "ET", tr, caps=("battery",), seed=case["seed"])
        fam = "ET"
    elif fam == "ETnoeco":
        # an inverter that refuses both kinds of eco groups; the library has learnt it from a read (the id is pruned)
        dev, inv = _build(goodwe, "ET", tr, caps=("battery",), seed=case["seed"])
        dev.exc_map.append((47515, 47546, 2))
        fam = "ET"
    else:
        dev, inv = _build(goodwe, fam, tr, seed=case["seed"])
    world.net.add_device(C.HOST, C.port_of(tr), dev)
    world.events = _Quiet()
    violations = []
    keys = set()
    n = {"calls": 0}

    def add(key, detail):
        if key not in keys:
            keys.add(key)
            violations.append(viol(key, detail))

    async def main():
        await inv.read_device_info()
        if case["family"] == "ETnoeco":
            await C.do_call(world, "probe", lambda: inv.read_setting("eco_mode_1"))
        for a in case["args"]:
            label = f"INV:{kind}:{a}"
            dev.label = label
            if kind == "export":
                rec = await C.do_call(world, label, lambda: inv.set_grid_export_limit(a))
                must_raise = False
            elif kind == "dod":
                rec = await C.do_call(world, label, lambda: inv.set_ongrid_battery_dod(a))
                must_raise = False
            elif kind == "eco_power":
                mode = gw.OperationMode.ECO_CHARGE if a % 2 else gw.OperationMode.ECO_DISCHARGE
                rec = await C.do_call(world, label, lambda: inv.set_operation_mode(mode, a, 50))
                must_raise = fam != "DT"
            elif kind == "eco_soc":
                mode = gw.OperationMode.ECO_CHARGE if a % 2 else gw.OperationMode.ECO_DISCHARGE
                rec = await C.do_call(world, label, lambda: inv.set_operation_mode(mode, 50, a))
                must_raise = fam != "DT"
            elif kind == "refused_id":
                if fam == "ES":
                    continue   # ES reads its block settings from the settings block; there is nothing to refuse
                sts = [x for x in inv.settings() if x.offset >= 40000 and type(x).__name__ in ("Integer", "IntegerS", "Decimal")]
                if not sts:
                    continue
                x = sts[a % len(sts)]
                dev.exc_map.append((x.offset, x.offset, 2))
                dev.label = None
                await C.do_call(world, "probe", lambda: inv.read_setting(x.id_))   # learns that the register is refused
                if x.id_ in {y.id_ for y in inv.settings()}:
                    continue   # still listed (not pruned by this read path): the id is not unknown, nothing to demand
                dev.label = label
                rec = await C.do_call(world, label, lambda: inv.write_setting(x.id_, 1))
                must_raise = True
            elif kind == "raw_register":
                rec = await C.do_call(world, label, lambda: inv.write_setting(f"modbus-{a}", 1))
                must_raise = True
            elif kind == "raw_value":
                rec = await C.do_call(world, label, lambda: inv.write_setting("modbus-45000", a))
                must_raise = True
            else:
                sid = "no_such_setting"
                near = ["dod_50", "bus_7", "sum_12", "bms_1", "47510", "mode_3", "modbus", "modbus-", "Modbus-47510",
                        " modbus-47510", "modbus_x1", "eco_mode_5", "m1", "0", ""]
                if a > 0 and a % 3 == 2:
                    sid = near[(a // 3) % len(near)]   # ids that LOOK like a raw-register or a known id but are not
                elif a > 0:
                    only_sensors = [x.id_ for x in inv.sensors() if x.id_ not in {y.id_ for y in inv.settings()}
                                    and type(x).__name__ in ("Voltage", "Current", "Integer", "Power", "Temp", "Frequency")]
                    if only_sensors:
                        sid = only_sensors[a % len(only_sensors)]
                        dev.label = None
                        await C.do_call(world, "probe", lambda: inv.read_sensor(sid))
                        dev.label = label
                rec = await C.do_call(world, label, lambda: inv.write_setting(sid, 1))
                must_raise = True
            dev.label = None
            n["calls"] += 1
            w = writes_during(dev, {label})
            if w:
                add(f"C18:invalid-arg-written:{fam}:{kind}", f"{fam} {kind} argument {a}: the inverter received the write "
                    f"frame {w[0]['raw'].hex()}")
            if must_raise and rec["outcome"] != "other:ValueError":
                add(f"C18:no-valueerror:{fam}:{kind}", f"{fam} {kind} argument {a}: outcome {rec['outcome']}, expected ValueError")
            if rec["outcome"].startswith("other:") and rec["outcome"] != "other:ValueError":
                add(f"C18:exception:{fam}:{kind}:{rec['outcome'][6:]}", f"{fam} {kind} argument {a}: raised {rec.get('exc')!r}")

    status, _ = C.run_world(world, main())
    if status != "ok":
        violations.append(viol(f"C18:hang:{fam}", f"did not terminate: {status}"))
    world.events = []
    world.log("summary", fam, kind, case["args"], n["calls"], sorted(keys))
    sigs = [(fam, kind, a) for a in case["args"]]
    return C.package(world, case, violations, sigs[0], True, {"invalid_calls": n["calls"]}, sigs=sigs)


class _Quiet(list):
    def append(self, x):
        pass
