"""C17 - a written setting reads back as written and touches only its own registers (DESIGN 6/C17)."""
from __future__ import annotations

import asyncio

import random
from datetime import datetime

from sim.net import World, DEFAULT_LATENCY
from sim import refdecode as R
from . import common as C
from . import devices
from .common import viol

ID = "C17"
LEVEL = "exploration"
BATCH = 1
RULE = ("write_setting(id, v) then read_setting(id) for EVERY setting of ET (eco-mode v1 and v2 firmware) and DT "
        "(three- and single-phase) over RTU/UDP and Modbus/TCP and the register-addressed settings of ES (eco-mode "
        "groups and switches over AA55 and, for eco-mode-v2 firmware, Modbus), against a stateful peer with arbitrary "
        "prior register contents.  Values: for 1- and 2-byte types the multiples of the resolution over the whole "
        "encodable domain (thorough: ALL 65536 of them for one representative setting per type and configuration and 4096 spread "
        "values for every other setting; quick: all boundaries plus 128 spread values per setting and 2048 for the "
        "representative ones), including the all-ones value, whose encoding is the reading's "
        "'no value' sentinel (Integer 65535, Voltage/Current 6553.5, Long 0xFFFFFFFF read back as 0: listed known findings); "
        "boundary + seeded values for 4/6/8/12-byte types (timestamps 2000-2255, eco groups built from valid "
        "fields).  Every fourth case runs under benign faults (lost request / lost answer within the retry budget): a "
        "retried write must be the identical frame; some RTU/UDP cases run against a peer that appends 2-4 surplus bytes to "
        "every answer (which the library accepts).  Oracle from the PEER: exactly one distinct write for the call, "
        "addressed to exactly [offset, offset+ceil(size/2)), carrying the reference encoding of v (one-byte settings: "
        "other half of the word unchanged); every other register unchanged; read_setting returns v (eco groups: "
        "decoded fields == reference decode of v).  Non-trivial: every case; distinct: (config, setting, value).")
ASSUMPTIONS = [
    "values are passed as floats raw/scale for scaled types (what a caller computing with floats passes)",
    "peer semantics: fc 06/16 store the words; AA55 0239 stores the given words at the given register, 011A reads "
    "them back (DESIGN 2.4)",
    "a setting 'defines an encoding' if encode_value does not raise NotImplementedError",
]
LEVEL_TEXT = ("Exploration with exhaustive value coverage per 1-/2-byte setting in thorough; the oracle is the peer's "
              "write log and register file (state), not the library's own view; benign faults check that a retried "
              "write stays one logical write.")
LEVEL_NOTE = "Trusted: peer write semantics; reference encoder (sim/refdecode.encode)."
TECHNIQUE = "deterministic simulation: stateful peer, write/read-back with device-side write-log oracle"

CONFIGS = [("ET", "v2", "udp"), ("ET", "v2", "tcp"), ("ET", "v1", "udp"), ("DT", "three", "udp"), ("DT", "single", "tcp"),
           ("ES", "v1", "udp"), ("ES", "v2", "udp")]
SLOTS = {"ET": 112, "DT": 16, "ES": 8}
VALUES_PER_CASE = 64
CASES_PER_SLOT = {"quick": 2, "thorough": 64}
REPRESENTATIVE = {"grid_export_limit", "battery_charge_voltage", "battery_charge_current", "power_factor",
                  "eco_mode_1_switch", "modbus_baud_rate", "time", "eco_mode_1", "peak_shaving_mode", "eco_mode_2"}
EXTRA_REP_CASES = {"quick": 32, "thorough": 960}
_SPACE = {}


def _space(tier):
    if tier not in _SPACE:
        out = []
        for ci, (fam, var, tr) in enumerate(CONFIGS):
            for slot in range(SLOTS[fam]):
                for ch in range(CASES_PER_SLOT[tier]):
                    out.append((ci, slot, ch, False))
                for ch in range(EXTRA_REP_CASES[tier]):
                    out.append((ci, slot, CASES_PER_SLOT[tier] + ch, True))
        _SPACE[tier] = out
    return _SPACE[tier]


def warm(tier):
    _space(tier)


def n_cases(tier):
    return len(_space(tier))


def make_case(tier, seed, index):
    ci, slot, ch, rep_only = _space(tier)[index]
    fam, var, tr = CONFIGS[ci]
    return {"family": fam, "variant": var, "transport": tr, "slot": slot, "chunk": ch, "rep_only": rep_only,
            "seed": (seed * 9176 + index) & 0xFFFFFF, "benign": index % 4 == 3,
            # the application runs the library's logger at DEBUG level
            "debug_log": index % 7 == 2, "refresh": index % 3 == 1,
            "tz": "CET-1CEST,M3.5.0,M10.5.0/3" if index % 2 else "EST5EDT,M3.2.0,M11.1.0",
            # a peer that appends surplus bytes to every RTU answer (accepted by the library, see C02)
            "trailing": ["", "", "0000", "a55a", "12345678"][(index // 2) % 5] if tr == "udp" and fam != "ES" else ""}


def simplify(case):
    out = []
    if case.get("benign"):
        out.append(dict(case, benign=False))
    if case.get("debug_log"):
        out.append(dict(case, debug_log=False))
    if case.get("trailing"):
        out.append(dict(case, trailing=""))
    if "only_value" not in case:
        for j in range(VALUES_PER_CASE):
            out.append(dict(case, only_value=j))
    return out


def build(goodwe, fam, var, tr, seed):
    if fam == "ET":
        caps = ("battery", "eco_v2", "peak_shaving") if var == "v2" else ("battery",)
        dev = devices.make_et(caps=caps, seed=seed, fill="hash", comm_addr=None, restrict=False)
        if var == "v1":
            dev.valid = devices.et_valid_ranges(caps)
        inv = goodwe.ET(C.HOST, C.port_of(tr), 0, 1, 2)
    elif fam == "DT":
        serial = "9010KDTU000W0001" if var == "three" else "93000DSN000W0001"
        dev = devices.make_dt(serial=serial, seed=seed, fill="hash", comm_addr=None, restrict=False)
        inv = goodwe.DT(C.HOST, C.port_of(tr), 0, 1, 2)
    else:
        v2 = var == "v2"
        dev = devices.make_es(seed=seed, fill="hash", firmware="2525E" if v2 else "14147", eco_v2_modbus=v2)
        dev.comm_addr = None
        inv = goodwe.ES(C.HOST, C.port_of(tr), 0, 1, 2)
    return dev, inv


def domain_value(cls, scale, j, rnd):
    """j-th value of the encodable domain of a setting type (boundaries first, then spread), or None to skip."""
    def pick(n, bounds):
        if j < len(bounds):
            return bounds[j] % n
        return (j * 40503 + rnd.randrange(n)) % n
    if cls == "Integer":
        return pick(65536, [0, 1, 2, 255, 256, 32767, 32768, 65534, 65533, 127, 128, 1000, 65535])
    if cls == "IntegerS":
        return pick(65536, [0, 1, 32767, 32768, 65535]) - 32768
    if cls in ("Voltage", "Current"):
        raw = pick(65536, [0, 1, 2, 3, 6, 7, 9, 255, 256, 32767, 32768, 65534, 5, 57, 570, 571, 65535])
        return raw / 10
    if cls == "CurrentS":
        raw = pick(65536, [0, 1, 32767, 32768, 65535, 32769, 3, 7]) - 32768
        return raw / 10
    if cls == "Decimal":
        raw = pick(65536, [0, 1, 32767, 32768, 65535, 32769, 32768 + 57, 32768 - 57, 32768 + 29, 32768 + 58]) - 32768
        return raw / scale
    if cls in ("ByteH", "ByteL"):
        return pick(256, [0, 1, 127, 128, 255, 129]) - 128
    if cls == "Long":
        b = [0, 1, 65535, 65536, 0x7FFFFFFF, 0x80000000, 0xFFFFFFFE, 0xFFFF0000, 0xFFFFFFFF]
        return b[j] if j < len(b) else rnd.randrange(0x100000000)
    if cls == "LongS":
        b = [0, 1, -1, 0x7FFFFFFF, -0x80000000]
        return b[j] if j < len(b) else rnd.randrange(-0x80000000, 0x80000000)
    if cls == "Timestamp":
        # ... and wall-clock times that do not exist / exist twice in zones with daylight saving (the library handles
        # naive datetimes; the process time zone must not matter - half the cases run under TZ=CET/CEST)
        b = [(2000, 1, 1, 0, 0, 0), (2255, 12, 31, 23, 59, 59), (2024, 2, 29, 12, 0, 0), (2023, 5, 17, 10, 11, 12),
             (2022, 3, 27, 2, 30, 0), (2023, 3, 26, 2, 0, 0), (2022, 10, 30, 2, 30, 0), (2024, 3, 10, 2, 30, 0)]
        t = b[j] if j < len(b) else (2000 + rnd.randrange(256), rnd.randint(1, 12), rnd.randint(1, 28), rnd.randrange(24),
                                     rnd.randrange(60), rnd.randrange(60))
        return datetime(*t)
    if cls == "EcoModeV1":
        sh, eh = rnd.choice([0, 5, 23, 48]), rnd.choice([0, 7, 23, 48])
        power = rnd.choice([0, 1, -1, 100, -100, rnd.randint(-100, 100)])
        b = bytes([sh, rnd.randrange(60), eh, rnd.randrange(60)]) + power.to_bytes(2, "big", signed=True) + \
            bytes([rnd.choice([0, 0xFF]), rnd.choice([0, 0x7F, 0xFF, rnd.randrange(128)])])
        return b
    if cls in ("EcoModeV2", "Schedule", "PeakShavingMode"):
        st = 3 if cls == "PeakShavingMode" else rnd.choice([0, 0, 6, 1, 2, 4, 5])
        on = rnd.random() < 0.5
        on_off = (255 - st) if on else st
        if st == 0:
            power = rnd.choice([0, 100, -100, rnd.randint(-100, 100)])
        elif st == 6:
            power = rnd.choice([0, 1000, -1000, rnd.randint(-1000, 1000)])
        else:
            power = rnd.randint(-32768, 32767)
        sh, eh = rnd.choice([0, 5, 23, 48, 255]), rnd.choice([0, 7, 23, 48, 255])
        sm, em = rnd.choice([0, 30, 59, 255]), rnd.choice([0, 30, 59, 255])
        months = rnd.choice([0, 0x0FFF, 1, 0x0800, rnd.randrange(0x1000)])
        b = bytes([sh, sm, eh, em, on_off, rnd.choice([0, 0x7F, 0xFF, rnd.randrange(128)])]) + \
            power.to_bytes(2, "big", signed=True) + rnd.choice([0, 100, rnd.randint(0, 100)]).to_bytes(2, "big") + \
            months.to_bytes(2, "big")
        return b
    return None


def run_case(case):
    goodwe, gp, ge = C.goodwe_mods()
    fam, var, tr = case["family"], case["variant"], case["transport"]
    rnd = random.Random(case["seed"])
    world = World(max_steps=3_000_000)
    dev, inv = build(goodwe, fam, var, tr, case["seed"] & 0xFFFF)
    world.net.add_device(C.HOST, C.port_of(tr), dev)
    default_fault = {"k": "mut", "ops": [["extend", case["trailing"]]]} if case.get("trailing") else {"k": "ok"}
    world.net.begin_script([], default_fault)
    violations = []
    keys = set()
    stats = {"pairs": 0, "skipped_sentinel": 0, "no_encoding": 0, "not_readable": 0}
    world.events = _Quiet()

    def add(key, detail):
        if key not in keys:
            keys.add(key)
            violations.append(viol(key, detail))

    sigs = []

    async def main():
        await inv.read_device_info()
        # the setting definitions as this object reports them right after its own device info: the specification of
        # WHERE each setting lives for this model (a later change of that is itself a violation)
        defs0 = {x.id_: (type(x).__name__, x.offset, getattr(x, "scale", None)) for x in inv.settings()}
        if fam == "DT" and case["chunk"] % 2 == 1:
            # a second inverter object of the OTHER phase type is set up in the same process afterwards: its model-
            # specific setting definitions must not replace this object's
            other_serial = "93000DSN000W0001" if var == "three" else "9010KDTU000W0001"
            dev2 = devices.make_dt(serial=other_serial, seed=5, fill="hash", comm_addr=None, restrict=False)
            world.net.add_device("10.0.0.9", C.port_of(tr), dev2)
            inv2 = goodwe.DT("10.0.0.9", C.port_of(tr), 0, 1, 2)
            await inv2.read_device_info()
        settings = sorted(inv.settings(), key=lambda s: (s.offset, s.id_))
        if fam == "ES":
            settings = [s for s in settings if s.id_.startswith("eco_mode_")]
        if case["slot"] >= len(settings):
            return
        st = settings[case["slot"]]
        cls = type(st).__name__
        if st.id_ in defs0 and defs0[st.id_] != (cls, st.offset, getattr(st, "scale", None)):
            add(f"C17:{defs0[st.id_][0]}:definition-changed",
                f"{fam}/{var}/{tr}: setting {st.id_!r} was {defs0[st.id_]} after read_device_info and is "
                f"{(cls, st.offset, getattr(st, 'scale', None))} after another inverter object was set up")
            return
        if case["rep_only"] and st.id_ not in REPRESENTATIVE:
            return
        if cls not in R.WIDTH or R.encode(cls, _probe_value(cls), scale=getattr(st, "scale", None), old_word=b"\0\0") is R.NOVALUE:
            stats["no_encoding"] += 1
            return
        width = R.WIDTH[cls] if cls not in ("ByteH", "ByteL") else 2
        nregs = (width + 1) // 2
        aa55 = fam == "ES" and st.offset < 30000
        for j in range(VALUES_PER_CASE):
            if "only_value" in case and j != case["only_value"]:
                # keep the PRNG stream aligned
                domain_value(cls, getattr(st, "scale", None), case["chunk"] * VALUES_PER_CASE + j, rnd)
                rnd.getrandbits(16 * (nregs + 2))
                continue
            v = domain_value(cls, getattr(st, "scale", None), case["chunk"] * VALUES_PER_CASE + j, rnd)
            prior = rnd.getrandbits(16 * (nregs + 2)).to_bytes(2 * (nregs + 2), "big")
            if j % 4 == 1:
                # boundary contents of the setting's own registers: all ones (what a reader may take for 'no value'),
                # all zeroes, only the top bit
                own = [b"\xff\xff", b"\x00\x00", b"\x80\x00", b"\xff\x7f", b"\x00\xff"][(j // 4 + case["chunk"]) % 5] * nregs
                prior = prior[:2] + own + prior[2 + 2 * nregs:]
            if v is None:
                continue
            # arbitrary prior contents of the setting's registers and of its two neighbours
            if aa55:
                dev.set_aa55_bytes(st.offset - 1, prior)
                before = dict(dev.aa55_regs)
            else:
                dev.set_bytes(st.offset - 1, prior)
                before = dict(dev.regs)
            old_word = prior[2:4]
            want = R.encode(cls, v, scale=getattr(st, "scale", None), old_word=old_word)
            sentinel = (cls in ("Integer", "Voltage", "Current") and want == b"\xff\xff") or \
                       (cls == "Long" and want == b"\xff\xff\xff\xff")
            if sentinel:
                stats["skipped_sentinel"] += 1   # (name kept for the evidence file: the value IS written and read back)
            nlog = len(dev.write_log)
            if case.get("benign"):
                m = j % 3
                world.net.begin_script([{"k": "ok"}] * (1 if cls in ("ByteH", "ByteL") else 0) +
                                       ([{"k": "drop"}] if m == 0 else [{"k": "dropans"}] if m == 1 else
                                        [{"k": "ok", "d": 0.5}]), default_fault)
            what = f"{fam}/{var}/{tr} write_setting({st.id_!r}, {v!r}) [{cls} @ {st.offset}]"
            try:
                if case.get("refresh") and fam in ("ET", "ES") and not case.get("benign") and j % 3 == 2:
                    # the application refreshes the device info while another task writes the setting: the write is
                    # issued 1.5 / 2.5 / 3.5 latencies into the refresh (between its requests)
                    async def late_write(delay=(1.5 + (j // 3) % 3) * DEFAULT_LATENCY):
                        await asyncio.sleep(delay)
                        await inv.write_setting(st.id_, v)
                    # one transmission somewhere in that window is lost (the objects are created with retries=2: whose-
                    # ever request it hits is retransmitted and answered)
                    world.net.begin_script([{"k": "ok"}] * (j % 5) + [{"k": "drop"}], default_fault)
                    res = await asyncio.gather(inv.read_device_info(), late_write(), return_exceptions=True)
                    world.net.begin_script([], default_fault)
                    if isinstance(res[1], BaseException):
                        raise res[1]
                    what += " (issued while read_device_info() was in progress)"
                else:
                    await inv.write_setting(st.id_, v)
            except Exception as e:  # noqa
                add(f"C17:{cls}:exception:{type(e).__name__}", f"{what} raised {e!r}")
                continue
            stats["pairs"] += 1
            sigs.append((fam, var, tr, st.id_, repr(v)))
            writes = dev.write_log[nlog:]
            distinct = []
            for w in writes:
                if not distinct or distinct[-1]["raw"][2 if tr == "tcp" else 0:] != w["raw"][2 if tr == "tcp" else 0:]:
                    distinct.append(w)
            if len(distinct) != 1:
                add(f"C17:{cls}:write-count", f"{what}: the inverter received {len(distinct)} distinct writes "
                    f"{[w['raw'].hex() for w in distinct]}")
                continue
            w = distinct[0]
            data = b"".join(x.to_bytes(2, "big") for x in w["words"])
            if w["reg"] != st.offset or len(w["words"]) != nregs:
                add(f"C17:{cls}:address", f"{what}: write addressed to {w['reg']} x {len(w['words'])} registers, "
                    f"expected {st.offset} x {nregs}")
                continue
            if data != want:
                add(f"C17:{cls}:encoding", f"{what}: wrote {data.hex()}, reference encoding is {want.hex()}"
                    + (f" (prior word {old_word.hex()})" if cls in ("ByteH", "ByteL") else ""))
                continue
            after = dev.aa55_regs if aa55 else dev.regs
            changed = [a for a in set(before) | set(after) if before.get(a) != after.get(a)
                       and not (st.offset <= a < st.offset + nregs)]
            if changed:
                add(f"C17:{cls}:collateral", f"{what}: registers {sorted(changed)[:5]} changed as well")
                continue
            # read back
            try:
                got = await inv.read_setting(st.id_)
            except ValueError:
                ref = R.decode(cls, want if cls not in ("ByteH", "ByteL") else want, scale=getattr(st, "scale", None))
                if ref is R.NOVALUE:
                    stats["not_readable"] += 1
                else:
                    add(f"C17:{cls}:readback-error", f"{what}: read_setting raised ValueError")
                continue
            except Exception as e:  # noqa
                add(f"C17:{cls}:readback-exception:{type(e).__name__}", f"{what}: read_setting raised {e!r}")
                continue
            if cls in ("EcoModeV1", "EcoModeV2", "Schedule", "PeakShavingMode"):
                ref = R.decode(cls, want)
                if ref is R.NOVALUE:
                    continue
                lib = R.eco_fields(got)
                bad = [k for k, x in ref.items() if k in lib and lib[k] != x]
                if bad and _day_defined(cls, want):
                    add(f"C17:{cls}:readback:{bad[0]}", f"{what}: read back field {bad[0]} = {lib[bad[0]]!r}, written "
                        f"bytes decode to {ref[bad[0]]!r}")
            else:
                if got != v or isinstance(got, bool):
                    if sentinel and got == 0:
                        # the all-ones word is the 'no value' sentinel of the reading: it cannot be told apart from 0
                        add(f"C17:{cls}:readback:all-ones-reads-as-0", f"{what}: the write carried {want.hex()}, "
                            f"read_setting returned {got!r}")
                    else:
                        add(f"C17:{cls}:readback", f"{what}: read_setting returned {got!r}")

    status, _ = C.run_world(world, main())
    if status != "ok":
        violations.append(viol(f"C17:hang:{fam}", f"did not terminate: {status}"))
    world.events = []
    world.log("summary", fam, var, tr, case["slot"], case["chunk"], stats["pairs"], sorted(keys))
    if not sigs:
        sigs = [(fam, var, tr, case["slot"], "no-op")]
    return C.package(world, case, violations, sigs[0], stats["pairs"] > 0, stats, sigs=sigs)


def _probe_value(cls):
    if cls == "Timestamp":
        return datetime(2020, 1, 1)
    if cls in ("EcoModeV1",):
        return bytes(8)
    if cls in ("EcoModeV2", "Schedule", "PeakShavingMode"):
        return bytes(12)
    return 0


def _day_defined(cls, b):
    d = R.s(b[7:8]) if cls == "EcoModeV1" else R.s(b[5:6])
    return d == -1 or 0 <= d <= 127


class _Quiet(list):
    def append(self, x):
        pass
