"""C11 - decoding is total: every sensor is reported, undecodable values become None (DESIGN 6/C11)."""
from __future__ import annotations

from sim.net import World
from sim import refdecode as R
from . import common as C
from . import decoding as D
from . import devices
from .common import viol

ID = "C11"
LEVEL = "exploration"
BATCH = 1
RULE = ("The simulated inverter serves adversarial register contents: all-zero, all-0xFF, boundary words {0000, FFFF, "
        "7FFF, 8000, 0001, FFFE}, seeded random and the full-period stepping sequence; ES runtime/settings blocks "
        "additionally with ANY announced length 0..255.  (a) bulk: read_runtime_data() of every ET/DT/ES variant and "
        "read_settings_data() of ET and ES must return a dict whose key set equals sensors()/settings() and raise "
        "nothing but InverterError; (b) single: read_setting(id)/read_sensor(id) for EVERY id may raise only "
        "ValueError/InverterError; (c) groups: for eco-mode V1 (8 bytes), eco-mode V2 / peak shaving (12 bytes) and "
        "timestamp (6 bytes) settings EVERY 16-bit value of EACH register of the group with the other registers "
        "held at a valid value (thorough: all 65536; quick: 4096 spread by an odd multiplier + all values of the "
        "day/month/on-off fields), read through read_setting; the reference decoder says which contents are "
        "undecodable: those must come back as ValueError (single) / None (bulk), decodable ones as an object with "
        "the reference fields.  Non-trivial: contents not all-zero; distinct: (variant, call, fill/seed | group, "
        "register, value).")
ASSUMPTIONS = [
    "schedule day bits outside [0,127] u {-1} and month bits >= 0x1000 are 'out of range' (undecodable)",
    "register contents the inverter 'may return' = any 16-bit words; ES block lengths 0..255",
]
LEVEL_TEXT = ("Exploration with exhaustive per-register coverage of the schedule/eco-mode/timestamp groups (thorough) "
              "through the real request path on the simulated loop; totality is observed at the public API.")
LEVEL_NOTE = "Trusted: peer model; reference decoder for the decodable/undecodable split of group contents."
TECHNIQUE = "deterministic simulation: adversarial peer contents, bulk + single reads of every id; per-register sweeps"

FILLS = [("zero", 0), ("ff", 0)] + [("bound", s) for s in range(1, 7)] + [("hash", s) for s in range(1, 7)] + \
        [("step", s) for s in range(1, 5)] + [("sp32a", s) for s in range(1, 5)] + [("sp32b", s) for s in range(1, 5)] + [("constw", s) for s in range(8)]
GROUPS = [("ET", "eco_mode_1", "v1", 47515, 4, "3000300000640000"), ("ET", "eco_mode_1", "v2", 47547, 6, "0000173bff7fffec00640000"),
          ("ET", "peak_shaving_mode", "v2", 47589, 6, "0000173bfc7f006400640000"), ("ET", "time", "ts", 45200, 3, "170511100b0c"),
          ("DT", "time", "ts", 40313, 3, "170511100b0c"), ("ES", "eco_mode_1", "v1aa", 1793, 4, "3000300000640000"),
          ("ES", "eco_mode_1", "v2es", 47547, 6, "0000173bff7fffec00640000"),
          # a group of the 745-platform eco type (power in 0.1 %): the valid range of the power word depends on the type byte
          ("ET", "eco_mode_1", "v2", 47547, 6, "0000173bf97ffe0c00640fff")]
VALUES_PER_CASE = 256
GROUP_VALUES = {"quick": 4096, "thorough": 65536}
REPS = {"quick": 1, "thorough": 8}
_SPACE = {}


def _space(tier):
    if tier not in _SPACE:
        out = []
        for rep in range(REPS[tier]):
            for ci in range(len(D.CONFIGS)):
                for fi in range(len(FILLS)):
                    out.append(("bulk", ci, fi, rep))
            for ln in range(0, 256, 1 if tier == "thorough" or rep == 0 else 256):
                out.append(("eslen", ln, rep))
        for gi, g in enumerate(GROUPS):
            for reg in range(g[4]):
                for chunk in range(GROUP_VALUES[tier] // VALUES_PER_CASE):
                    out.append(("group", gi, reg, chunk))
        _SPACE[tier] = out
    return _SPACE[tier]


def warm(tier):
    _space(tier)


def n_cases(tier):
    return len(_space(tier))


def exhaustive(tier):
    return False


def make_case(tier, seed, index):
    c = _space(tier)[index]
    if c[0] == "bulk":
        _, ci, fi, rep = c
        fam, var, tr = D.CONFIGS[ci]
        fill, fseed = FILLS[fi]
        return {"kind": "bulk", "warn_error": index % 4 == 1, "family": fam, "variant": var, "transport": tr, "fill": fill,
                "seed": (fseed * 31 + rep * 977 + seed * 131) & 0xFFFF, "k": (index * 40503 + seed) & 0xFFFF}
    if c[0] == "eslen":
        return {"kind": "eslen", "len": c[1], "seed": (c[2] * 101 + c[1] + seed) & 0xFFFF}
    _, gi, reg, chunk = c
    total = GROUP_VALUES[tier]
    mult = 1 if total == 65536 else 40503
    vals = [((chunk * VALUES_PER_CASE + i) * mult + seed * 7919) & 0xFFFF for i in range(VALUES_PER_CASE)]
    if total != 65536 and chunk == 1:
        # ... and the neighbourhood of every range boundary a signed word can have in these groups
        edge = []
        for b in (0, 100, 1000, 23, 59, 48, 127, 255, 0x0FFF, 0x1000, 0x7FFF, 0x8000):
            for dlt in range(-10, 11):
                edge += [(b + dlt) & 0xFFFF, (-b + dlt) & 0xFFFF]
        vals = sorted(set(vals[:64] + edge))
    if total != 65536 and chunk == 0:
        # always include every value of the high and the low byte with the other byte at typical values
        vals = sorted(set(vals[:64] + [(b << 8) | lo for b in range(256) for lo in (0x00, 0x7F)][:512]))
    return {"kind": "group", "group": gi, "reg": reg, "values": vals}


SHRINK_FROZEN = ()


def simplify(case):
    out = []
    if case["kind"] == "group" and len(case["values"]) > 1:
        for v in case["values"][:512]:
            out.append(dict(case, values=[v]))
    return out


def run_case(case):
    if case["kind"] == "bulk":
        return run_bulk(case)
    if case["kind"] == "eslen":
        return run_eslen(case)
    return run_group(case)


def _cls_of(inv, sid, settings=False):
    coll = inv.settings() if settings else inv.sensors()
    for s in coll:
        if s.id_ == sid:
            return type(s).__name__
    return "?"


def run_bulk(case):
    goodwe, gp, ge = C.goodwe_mods()
    fam, var, tr = case["family"], case["variant"], case["transport"]
    world = World(max_steps=3_000_000)
    dev, inv = D.build(goodwe, fam, var, tr, case["seed"], case["fill"])
    dev.k = case["k"]
    if fam == "ES":
        # ES with eco-mode-v2 settings needs a Modbus-capable peer too
        dev.modbus = True
        dev.comm_addr = None
    world.net.add_device(C.HOST, C.port_of(tr), dev)
    violations = []
    keys = set()
    stats = {"bulk_calls": 0, "single_calls": 0, "none_values": 0}
    world.events = _Quiet()

    def add(key, detail):
        if key not in keys:
            keys.add(key)
            violations.append(viol(key, detail))

    what = f"{fam}/{var}/{tr} fill={case['fill']} seed={case['seed']} k={case['k']}"

    async def main():
        try:
            await inv.read_device_info()
        except ge.InverterError:
            return
        except Exception as e:  # noqa
            add(f"C11:{type(e).__name__}:read_device_info:{fam}", f"{what}: read_device_info raised {e!r}")
            return
        # (a) bulk - twice: the second poll of the same contents must be as complete as the first
        try:
            data = await inv.read_runtime_data()
            data2 = await inv.read_runtime_data()
            if set(data2) != set(data) or set(data2) != {s.id_ for s in inv.sensors()}:
                add(f"C11:keys:runtime-second-poll:{fam}", f"{what}: second poll has other keys than the first: "
                    f"{sorted(set(data2) ^ set(data))[:6]}")
            stats["bulk_calls"] += 1
            ids = {s.id_ for s in inv.sensors()}
            if set(data) != ids:
                add(f"C11:keys:runtime:{fam}", f"{what}: runtime keys differ from sensors(): "
                    f"{sorted(set(data) ^ ids)[:6]}")
            stats["none_values"] += sum(1 for v in data.values() if v is None)
        except ge.InverterError as e:
            add(f"C11:inverter-error:runtime:{fam}", f"{what}: read_runtime_data raised {e!r} although the peer answers")
        except Exception as e:  # noqa
            add(f"C11:{type(e).__name__}:bulk:read_runtime_data:{fam}", f"{what}: read_runtime_data raised {e!r}")
        if fam in ("ET", "ES"):
            try:
                if fam == "ET" and (case["seed"] + case["k"]) % 3 == 0:
                    # this inverter does not have some of the optional settings (their registers are refused with
                    # ILLEGAL DATA ADDRESS): the bulk read must still report every id it covers
                    sts = [x for x in inv.settings() if x.offset >= 45000]
                    for j in range(1 + case["seed"] % 3):
                        x = sts[(case["seed"] * 7 + j * 13) % len(sts)]
                        dev.exc_map.append((x.offset, x.offset + max(1, (x.size_ + 1) // 2) - 1, 2))
                    stats["refused_settings"] = stats.get("refused_settings", 0) + 1
                ids0 = {s.id_ for s in inv.settings()}
                sdata = await inv.read_settings_data()
                ids1 = {s.id_ for s in inv.settings()}
                sdata2 = await inv.read_settings_data()
                if set(sdata2) != ids1:
                    add(f"C11:keys:settings-second-poll:{fam}", f"{what}: second settings read has other keys than "
                        f"settings() listed before it: {sorted(set(sdata2) ^ ids1)[:6]}")
                stats["bulk_calls"] += 1
                if set(sdata) != ids0:
                    add(f"C11:keys:settings:{fam}", f"{what}: settings keys differ from settings() as listed before the "
                        f"call: {sorted(set(sdata) ^ ids0)[:6]}")
                stats["none_values"] += sum(1 for v in sdata.values() if v is None)
                if fam == "ET":
                    # 'never prevents the other values from being decoded': every content of a plain numeric
                    # setting is a value, so None there (for a register the inverter has) came from somewhere else
                    refused = {lo for (lo, hi, code) in dev.exc_map}
                    for st in inv.settings():
                        if type(st).__name__ in ("Byte", "ByteH", "ByteL", "Integer", "IntegerS", "Long", "LongS", "Decimal",
                                                 "Voltage", "Current", "CurrentS") and st.id_ in sdata2 \
                                and sdata2[st.id_] is None and st.offset not in refused \
                                and dev.is_valid(st.offset, max(1, (st.size_ + 1) // 2)):
                            add(f"C11:none-for-decodable:{type(st).__name__}",
                                f"{what}: read_settings_data()['{st.id_}'] is None although every content of a "
                                f"{type(st).__name__} register is a value")
                            break
            except ge.InverterError as e:
                add(f"C11:inverter-error:settings:{fam}", f"{what}: read_settings_data raised {e!r}")
            except Exception as e:  # noqa
                add(f"C11:{type(e).__name__}:bulk:read_settings_data:{fam}", f"{what}: read_settings_data raised {e!r}")
        # (b) single
        for s in list(inv.sensors()):
            try:
                await inv.read_sensor(s.id_)
            except (ValueError, ge.InverterError):
                pass
            except Exception as e:  # noqa
                add(f"C11:{type(e).__name__}:{type(s).__name__}", f"{what}: read_sensor({s.id_!r}) raised {e!r}")
            stats["single_calls"] += 1
        for s in list(inv.settings()):
            if s.id_ == "time" and fam == "ES":
                continue
            try:
                await inv.read_setting(s.id_)
            except (ValueError, ge.InverterError):
                pass
            except Exception as e:  # noqa
                add(f"C11:{type(e).__name__}:{type(s).__name__}", f"{what}: read_setting({s.id_!r}) raised {e!r}")
            stats["single_calls"] += 1

    status, _ = C.run_world(world, main())
    if status != "ok":
        violations.append(viol(f"C11:hang:{fam}", f"did not terminate: {status}"))
    world.events = []
    world.log("summary", what, stats["bulk_calls"], stats["single_calls"], stats["none_values"], sorted(keys))
    sig = (fam, var, tr, case["fill"], case["seed"], case["k"])
    return C.package(world, case, violations, sig, case["fill"] != "zero", stats)


def run_eslen(case):
    """ES blocks of any announced length (shorter / longer than the tables expect)."""
    goodwe, gp, ge = C.goodwe_mods()
    ln = case["len"]
    world = World(max_steps=500_000)
    dev = devices.make_es(seed=case["seed"], fill="hash")
    blk = bytes((dev.default_word(5000 + j) >> 3) & 0x3F for j in range(ln))   # small bytes: checksum stays low
    dev.blocks[0x0106] = blk
    dev.settings_block = None
    dev.blocks[0x0109] = blk
    world.net.add_device(C.HOST, C.UDP_PORT, dev)
    inv = goodwe.ES(C.HOST, C.UDP_PORT, 0, 1, 1)
    violations = []
    world.events = _Quiet()

    async def main():
        await inv.read_device_info()
        for name in ("read_runtime_data", "read_settings_data"):
            try:
                data = await getattr(inv, name)()
                ids = {s.id_ for s in (inv.sensors() if name == "read_runtime_data" else inv.settings())}
                if set(data) != ids:
                    violations.append(viol(f"C11:keys:{name}:ES", f"block length {ln}: keys differ {sorted(set(data) ^ ids)[:5]}"))
                if name == "read_settings_data":
                    # a setting whose own bytes are not (all) inside the announced block cannot be interpreted: None
                    for st in inv.settings():
                        if type(st).__name__ in R.WIDTH and st.offset < 256 and st.offset + st.size_ > ln \
                                and data.get(st.id_) is not None:
                            violations.append(viol(f"C11:ES-settings:beyond-block:{type(st).__name__}",
                                                   f"settings block of announced length {ln}: {st.id_} (bytes {st.offset}.."
                                                   f"{st.offset + st.size_ - 1}) is reported as {data[st.id_]!r}, not None"))
                            break
            except ge.InverterError as e:
                violations.append(viol(f"C11:inverter-error:{name}:ES", f"block length {ln}: {e!r}"))
            except Exception as e:  # noqa
                violations.append(viol(f"C11:{type(e).__name__}:bulk:{name}:ES", f"ES block of announced length {ln}: {name} raised {e!r}"))

    status, _ = C.run_world(world, main())
    if status != "ok":
        violations.append(viol("C11:hang:ES", f"did not terminate: {status}"))
    world.events = []
    world.log("summary", "eslen", ln, len(violations))
    return C.package(world, case, violations, ("eslen", ln), True, {"es_length_runs": 1})


def run_group(case):
    goodwe, gp, ge = C.goodwe_mods()
    fam, sid, kind, base, nregs, valid_hex = GROUPS[case["group"]]
    world = World(max_steps=5_000_000)
    tr = "udp"
    if fam == "ET":
        caps = ("battery", "peak_shaving") if kind == "v1" else ("battery", "eco_v2", "peak_shaving")
        dev = devices.make_et(caps=caps, fill="zero", comm_addr=None)
        inv = goodwe.ET(C.HOST, C.UDP_PORT, 0, 1, 1)
    elif fam == "DT":
        dev = devices.make_dt(fill="zero", comm_addr=None)
        inv = goodwe.DT(C.HOST, C.UDP_PORT, 0, 1, 1)
    else:
        v2 = kind == "v2es"
        dev = devices.make_es(fill="zero", firmware="2525E" if v2 else "14147", eco_v2_modbus=v2,
                              runtime=bytes(142), settings=bytes(86))
        dev.comm_addr = None
        inv = goodwe.ES(C.HOST, C.UDP_PORT, 0, 1, 1)
    world.net.add_device(C.HOST, C.UDP_PORT, dev)
    valid = bytes.fromhex(valid_hex)
    violations = []
    keys = set()
    stats = {"group_reads": 0, "undecodable": 0, "decodable": 0}
    world.events = _Quiet()
    cls = {"v1": "EcoModeV1", "v1aa": "EcoModeV1", "v2": "EcoModeV2", "v2es": "EcoModeV2", "ts": "Timestamp"}[kind]
    if sid == "peak_shaving_mode":
        cls = "PeakShavingMode"

    def add(key, detail):
        if key not in keys:
            keys.add(key)
            violations.append(viol(key, detail))

    def setgroup(b):
        if kind == "v1aa":
            dev.set_aa55_bytes(base, b)
        else:
            dev.set_bytes(base, b)

    async def main():
        setgroup(valid)
        await inv.read_device_info()
        if sid not in {s.id_ for s in inv.settings()}:
            add(f"C11:setup:{fam}:{sid}", f"setting {sid} not offered")
            return
        for v in case["values"]:
            b = bytearray(valid)
            b[2 * case["reg"]:2 * case["reg"] + 2] = bytes((v >> 8, v & 0xFF))
            b = bytes(b)
            setgroup(b)
            ref = R.decode(cls, b)
            stats["group_reads"] += 1
            what = f"{fam} {sid} ({cls}) registers {b.hex()}"
            try:
                got = await inv.read_setting(sid)
            except ValueError:
                stats["undecodable"] += 1
                if ref is not R.NOVALUE and _day_ok(cls, b):
                    add(f"C11:refused-decodable:{cls}", f"{what}: read_setting raised ValueError but the contents are "
                        f"decodable ({ref})")
                continue
            except ge.InverterError as e:
                add(f"C11:inverter-error:{cls}", f"{what}: {e!r}")
                continue
            except Exception as e:  # noqa
                add(f"C11:{type(e).__name__}:{cls}", f"{what}: read_setting raised {e!r}")
                continue
            stats["decodable"] += 1
            if ref is R.NOVALUE:
                if _day_ok(cls, b):
                    add(f"C11:accepted-undecodable:{cls}", f"{what}: read_setting returned {got} although the contents "
                        f"are out of range")
                continue
            if cls == "Timestamp":
                if got != ref:
                    add(f"C11:wrong:{cls}", f"{what}: {got!r} != {ref!r}")
            else:
                lib = R.eco_fields(got)
                bad = [k for k, x in ref.items() if k in lib and lib[k] != x]
                if bad:
                    add(f"C11:wrong:{cls}:{bad[0]}", f"{what}: field {bad[0]} = {lib[bad[0]]!r}, reference {ref[bad[0]]!r}")

    status, _ = C.run_world(world, main())
    if status != "ok":
        violations.append(viol(f"C11:hang:{fam}", f"did not terminate: {status}"))
    world.events = []
    world.log("summary", "group", fam, sid, kind, case["reg"], stats["group_reads"], stats["undecodable"], sorted(keys))
    sigs = [(fam, sid, kind, case["reg"], v) for v in case["values"]]
    return C.package(world, case, violations, sigs[0], True, stats, sigs=sigs)


def _day_ok(cls, b):
    """Is the day-of-week byte inside the documented range [0,127] u {-1}?  Outside it only totality is demanded."""
    if cls == "EcoModeV1":
        d = R.s(b[7:8])
    elif cls in ("EcoModeV2", "PeakShavingMode"):
        d = R.s(b[5:6])
    else:
        return True
    return d == -1 or 0 <= d <= 127


class _Quiet(list):
    def append(self, x):
        pass
