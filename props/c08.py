"""C08 - Modbus exception answers surface at once as RequestRejectedException(reason) (DESIGN 6/C08)."""
from __future__ import annotations

import asyncio

from sim.net import World, DEFAULT_LATENCY
from sim.device import SimInverter
from . import common as C
from . import devices
from .common import EPS, viol

ID = "C08"
LEVEL = "fault_enumeration"
BATCH = 16
RULE = ("(Also: the same with ANOTHER CALLER queued on the object whose own request is never answered - the rejected "
        "request must still end at the instant the exception frame arrives.)  Enumerated: ALL 256 exception codes x {read, write, write-multi} x {udp-rtu, tcp} x k dropped transmissions "
        "before the exception frame (k in the tier's range) x keep-alive (thorough: both; quick: alternating) x "
        "(timeout, retries), the earlier transmissions being lost or answered by a lone first fragment whose missing "
        "tail is exactly as long as the exception frame; the exception frame answers transmission k+1 with a delay drawn from {prompt, mid, just "
        "inside the timeout}.  Plus one run per transport/keep-alive that requests all 256 codes on one object and "
        "compares the full code->text mapping (pairwise distinct known texts), and end-to-end runs through "
        "ET.read_runtime_data / read_setting where an optional block answers each exception code.  Non-trivial: all; "
        "distinct: (transport, command, code, k, delay class, keep-alive).")
ASSUMPTIONS = [
    "exception frames: function code | 0x80, one code byte, valid CRC (RTU) / MBAP length 3 (TCP)",
    "for codes 4..8, 10, 11 only 'non-empty, not UNKNOWN, pairwise distinct' is demanded (the statement spells out "
    "1, 2, 3 and UNKNOWN)",
]
LEVEL_TEXT = ("Complete enumeration of the exception-code space per command and transport, with retry index and "
              "answer delay as fault dimensions, executed on the simulated loop so that 'at once' is an equality of "
              "virtual instants (completion time == delivery time of the exception frame) and 'no retransmission' "
              "is observed over a further (retries+1) x timeout of simulated idle time.")
LEVEL_NOTE = "Trusted: transport model; exception frame layout as described in the Modbus specification."
TECHNIQUE = "deterministic simulation, exhaustive exception codes x command x transport x retry index"

KS = {"quick": [0, 1], "thorough": [0, 1, 2, 3]}
CMDS = [{"op": "read", "reg": 35100, "count": 8}, {"op": "write", "reg": 47510, "value": 1234},
        {"op": "wmulti", "reg": 47515, "hex": "0000173b0064ff7f"},
        # a ready-made frame in a plain ProtocolCommand (what the documented Inverter.send_command() executes)
        {"op": "raw", "reg": 35100, "count": 8}]
SETTINGS = [(1.0, 3), (0.5, 1), (0.25, 3)]
E2E_CODES = list(range(0, 13)) + [0x80, 0xFF]
STD = {1: "ILLEGAL FUNCTION", 2: "ILLEGAL DATA ADDRESS", 3: "ILLEGAL DATA VALUE"}
KNOWN = {1, 2, 3, 4, 5, 6, 7, 8, 10, 11}
_SPACE = {}


def _space(tier):
    if tier not in _SPACE:
        out = []
        for tr in ("udp", "tcp"):
            for ci in range(len(CMDS)):
                for k in KS[tier]:
                    for code in range(256):
                        if tier == "thorough":
                            for ka in (False, True):
                                out.append(("exc", tr, ci, k, code, ka, "drop"))
                        else:
                            out.append(("exc", tr, ci, k, code, bool((code + k + ci) & 1), "drop"))
        # earlier timeouts of the same request caused by a LONE first fragment whose missing tail has exactly the
        # length of the exception frame (reads only)
        for tr in ("udp", "tcp"):
            for k in (1, 2):
                for code in (list(range(256)) if tier == "thorough" else list(range(0, 16)) + [0x80, 0xFF]):
                    for ka in (False, True):
                        out.append(("exc", tr, 0, k, code, ka, "lonefrag_fit"))
        # a stray first fragment of a read answer (much more than an exception frame still missing) arrives right
        # before the exception frame, in answer to the same transmission
        for tr in ("udp", "tcp"):
            for k in (0, 1):
                for code in (list(range(256)) if tier == "thorough" else [1, 2, 3, 4, 6, 11, 0x80]):
                    for ka in (False, True):
                        out.append(("exc", tr, 0, k, code, ka, "stray_frag"))
        # another caller is queued on the same object (its own request will never be answered): the rejected request
        # must still fail at the instant the exception frame arrives
        for tr in ("udp", "tcp"):
            for ci in range(len(CMDS)):
                for k in (0, 1):
                    for code in (list(range(256)) if tier == "thorough" else [1, 2, 3, 4, 6, 11, 0x80]):
                        for ka in (False, True):
                            out.append(("exc", tr, ci, k, code, ka, "queued_caller"))
        # Modbus/TCP devices known for a wrong MBAP length field (the library ignores the field for that reason):
        # the exception frame announces 6 (the request's header echoed), 0, or far too much
        for ci in range(len(CMDS)):
            for k in (0, 1):
                for code in (list(range(256)) if tier == "thorough" else [1, 2, 3, 4, 6, 11, 0x80]):
                    for q in ("mbap_six", "mbap_zero", "mbap_big"):
                        out.append(("exc", "tcp", ci, k, code, bool((code + k + ci) & 1), q))
        # the refusal reaches the client twice (duplicated datagram) and the caller issues its next request at the
        # instant it got the refusal: that next request is a request of its own
        for ci in range(len(CMDS)):
            for k in (0, 1):
                for code in (list(range(256)) if tier == "thorough" else [1, 2, 3, 4, 6, 11, 0x80]):
                    for ka in (False, True):
                        out.append(("exc", "udp", ci, k, code, ka, "dup_next"))
        for tr in ("udp", "tcp"):
            for ka in (False, True):
                out.append(("texts", tr, ka))
        for code in E2E_CODES:
            for what in ("battery", "setting", "dt_meter", "dt_setting"):
                for tr in ("udp", "tcp"):
                    out.append(("e2e", what, code, tr))
        _SPACE[tier] = out
    return _SPACE[tier]


def warm(tier):
    _space(tier)


def n_cases(tier):
    return len(_space(tier))


def exhaustive(tier):
    # quick enumerates all 256 codes for the main grid but only a subset of codes for the prior-fragment variants
    return tier == "thorough"


def make_case(tier, seed, index):
    rnd = C.rng_for(seed, ID, index)
    c = _space(tier)[index]
    if c[0] == "exc":
        _, tr, ci, k, code, ka, prior = c
        cands = [s for s in SETTINGS if s[1] >= k]
        tau, r = cands[index % len(cands)]
        return {"kind": "exc", "transport": tr, "cmd": CMDS[ci], "k": k, "code": code, "keep_alive": ka,
                "timeout": tau, "retries": r, "delay": rnd.choice(["prompt", "mid", "edge"]), "prior": prior}
    if c[0] == "texts":
        return {"kind": "texts", "transport": c[1], "keep_alive": c[2]}
    return {"kind": "e2e", "what": c[1], "code": c[2], "transport": c[3]}


def check_text(violations, code, msg, tr):
    if code in STD:
        if msg != STD[code]:
            violations.append(viol(f"C08:text:{code}", f"exception code {code}: message {msg!r}, expected {STD[code]!r}"))
    elif code not in KNOWN:
        if msg != "UNKNOWN":
            violations.append(viol("C08:text:unknown", f"exception code {code}: message {msg!r}, expected 'UNKNOWN'"))
    else:
        if not msg or msg == "UNKNOWN" or msg in STD.values():
            violations.append(viol(f"C08:text:{code}", f"exception code {code}: message {msg!r} is empty/UNKNOWN/"
                                   f"another code's text"))


def run_case(case):
    if case["kind"] == "exc":
        return run_exc(case)
    if case["kind"] == "texts":
        return run_texts(case)
    return run_e2e(case)


def run_exc(case):
    tr, tau, r, k, code = case["transport"], case["timeout"], case["retries"], case["k"], case["code"]
    d = {"prompt": DEFAULT_LATENCY, "mid": tau / 2, "edge": tau - EPS}[case["delay"]]
    if case.get("prior") == "lonefrag_fit":
        n = case["cmd"]["count"]
        pre = [{"k": "lonefrag", "s": 2 * n, "d1": DEFAULT_LATENCY}] * k   # answer is 7+2n (RTU) / 9+2n (TCP) bytes long
    else:
        pre = [{"k": "drop"}] * k
    if case.get("prior") == "stray_frag":
        hdr = 9 if tr == "tcp" else 5
        faults = [{"k": "drop"}] * k + [{"k": "multi", "parts": [{"what": "prefix", "s": hdr, "d": d / 2},
                                                                {"what": "exc", "code": code, "d": d}]}]
    elif case.get("prior") in ("mbap_six", "mbap_zero", "mbap_big"):
        n = {"mbap_six": 6, "mbap_zero": 0, "mbap_big": 40}[case["prior"]]
        faults = pre + [{"k": "exc", "code": code, "d": d, "ops": [["set", 4, n >> 8], ["set", 5, n & 0xFF]]}]
    elif case.get("prior") == "dup_next":
        faults = pre + [{"k": "exc", "code": code, "d": d, "again": d + 2 * DEFAULT_LATENCY}]
    else:
        faults = pre + [{"k": "exc", "code": code, "d": d}]
    queued = case.get("prior") == "queued_caller"
    world = World(max_steps=20_000)
    world.net.begin_script(faults, {"k": "drop"} if queued else {"k": "ok"})
    dev = SimInverter(mode="stamp")
    world.net.add_device(C.HOST, C.port_of(tr), dev)
    proto = C.make_protocol(tr, tau, r, case["keep_alive"])
    state = {}

    async def other():
        await asyncio.sleep(EPS)
        state["other"] = await C.do_execute(world, proto, {"op": "read", "reg": 61000, "count": 1}, "other")

    async def main():
        t = asyncio.ensure_future(other()) if queued else None
        state["rec"] = await C.do_execute(world, proto, case["cmd"], "req")
        state["ntx_at_return"] = world.net.n_tx
        if case.get("prior") == "dup_next":
            # answered after the duplicate has arrived
            world.net.begin_script([{"k": "ok", "d": 4 * DEFAULT_LATENCY}], {"k": "ok"})
            state["next"] = await C.do_execute(world, proto, {"op": "read", "reg": 61001, "count": 1}, "next")
            state["ntx_at_return"] = world.net.n_tx - (state["next"]["tx1"] - state["next"]["tx0"])
        await asyncio.sleep((r + 2) * tau)
        if t is not None:
            await t

    status, _ = C.run_world(world, main())
    violations = []
    net = world.net
    rec = state.get("rec")
    op = case["cmd"]["op"]
    if status != "ok" or rec is None:
        violations.append(viol(f"C08:hang:{tr}", f"did not terminate: {status}"))
    else:
        if rec["outcome"] != "rejected":
            violations.append(viol(f"C08:outcome:{tr}:{op}",
                                   f"exception code {code} after {k} drops: outcome {rec['outcome']} {rec.get('exc')!r}"))
        else:
            check_text(violations, code, rec["msg"], tr)
        dls = [x for x in net.deliveries if x["status"] == "delivered" and x["kind"] == "data"]
        dls = [x for x in dls if x["tx"] == k]
        if case.get("prior") == "dup_next":
            dls = dls[:1]
        if not dls:
            violations.append(viol(f"C08:no-delivery:{tr}", "exception frame was not delivered"))
        elif rec["t1"] != dls[-1]["t_run"]:
            q = f":{'ka' if case['keep_alive'] else 'noka'}:queued-caller" if queued else ""
            violations.append(viol(f"C08:not-at-once:{tr}:{op}{q}",
                                   f"exception frame delivered at {dls[-1]['t_run']}, request ended at {rec['t1']}"
                                   + (" (another caller's request was waiting for the lock)" if queued else "")))
        other_reg = bytes((61000 >> 8, 61000 & 0xFF))
        own = [t for t in net.transmissions if (t["data"][8:10] if tr == "tcp" else t["data"][2:4]) != other_reg]
        if queued:
            if len(own) != k + 1:
                violations.append(viol(f"C08:tx-count:{tr}:{op}",
                                       f"{len(own)} transmissions before the rejection, expected {k + 1}"))
        elif state["ntx_at_return"] != k + 1:
            violations.append(viol(f"C08:tx-count:{tr}:{op}",
                                   f"{state['ntx_at_return']} transmissions before the rejection, expected {k + 1}"))
        nxt = state.get("next")
        if nxt is not None:
            if nxt["outcome"] != "result":
                violations.append(viol(f"C08:next-request:{tr}:{'ka' if case['keep_alive'] else 'noka'}",
                                       f"the request issued right after the refusal ended as {nxt['outcome']} "
                                       f"{nxt.get('exc')!r} although the inverter answered it (the refusal had been "
                                       f"delivered twice)"))
        elif not queued and net.n_tx != state["ntx_at_return"]:
            violations.append(viol(f"C08:retransmit-after:{tr}:{op}",
                                   f"{net.n_tx - state['ntx_at_return']} transmissions after the rejection"))
    sig = (tr, op, code, k, case["delay"], case["keep_alive"], case.get("prior"))
    return C.package(world, case, violations, sig, True, {"exc_runs": 1,
                                                         "prior_lonefrag": 1 if case.get("prior") == "lonefrag_fit" else 0})


def run_texts(case):
    tr = case["transport"]
    world = World(max_steps=200_000)
    dev = SimInverter(mode="stamp")
    world.net.add_device(C.HOST, C.port_of(tr), dev)
    proto = C.make_protocol(tr, 1.0, 1, case["keep_alive"])
    texts = {}

    async def main():
        for code in range(256):
            world.net.begin_script([{"k": "exc", "code": code}], {"k": "ok"})
            rec = await C.do_execute(world, proto, CMDS[code % 3], "c%d" % code)
            texts[code] = (rec["outcome"], rec.get("msg"))

    status, _ = C.run_world(world, main())
    violations = []
    if status != "ok":
        violations.append(viol(f"C08:hang:{tr}", f"texts run did not terminate: {status}"))
    for code, (oc, msg) in sorted(texts.items()):
        if oc != "rejected":
            violations.append(viol(f"C08:outcome:{tr}:texts", f"code {code}: outcome {oc}"))
            continue
        check_text(violations, code, msg, tr)
    known_texts = [texts[c][1] for c in sorted(KNOWN) if c in texts and texts[c][0] == "rejected"]
    if len(set(known_texts)) != len(known_texts):
        violations.append(viol("C08:text:not-distinct", f"texts of the standard codes are not pairwise distinct: {known_texts}"))
    sig = ("texts", tr, case["keep_alive"], tuple(sorted((c, t[1]) for c, t in texts.items() if c in KNOWN)))
    return C.package(world, case, violations, sig, True, {"texts_runs": 1})


def run_e2e(case):
    goodwe, gp, ge = C.goodwe_mods()
    what, code, tr = case["what"], case["code"], case["transport"]
    world = World(max_steps=100_000)
    violations = []
    state = {}
    if what in ("battery", "setting"):
        dev = devices.make_et(caps=("battery", "eco_v2", "peak_shaving"), fill="zero", comm_addr=None)
        if what == "battery":
            dev.exc_map.append((37000, 37023, code))
        else:
            dev.exc_map.append((47510, 47510, code))
        world.net.add_device(C.HOST, C.port_of(tr), dev)
        inv = goodwe.ET(C.HOST, C.port_of(tr), 0xF7, 1, 1)
    else:
        dev = devices.make_dt(fill="zero", comm_addr=None)
        if what == "dt_meter":
            dev.exc_map.append((30195, 30209, code))
        else:
            dev.exc_map.append((40336, 40336, code))
        world.net.add_device(C.HOST, C.port_of(tr), dev)
        inv = goodwe.DT(C.HOST, C.port_of(tr), 0x7F, 1, 1)

    async def main():
        state["info"] = await C.do_call(world, "info", inv.read_device_info)
        if what in ("battery", "dt_meter"):
            state["r1"] = await C.do_call(world, "runtime1", inv.read_runtime_data)
            state["r2"] = await C.do_call(world, "runtime2", inv.read_runtime_data)
        else:
            state["r1"] = await C.do_call(world, "setting", lambda: inv.read_setting("grid_export_limit"))

    status, _ = C.run_world(world, main())
    if status != "ok" or state.get("info", {}).get("outcome") != "result":
        violations.append(viol(f"C08:e2e:{what}:setup", f"setup failed: {status} {state.get('info')}"))
    else:
        r1 = state["r1"]
        if what == "battery":
            if code == 2:
                if r1["outcome"] != "result" or "battery_soc" in r1["value"]:
                    violations.append(viol("C08:e2e:battery:code2", f"ILLEGAL DATA ADDRESS on the battery block must "
                                           f"disable it: outcome {r1['outcome']}"))
                elif state["r2"]["outcome"] != "result":
                    violations.append(viol("C08:e2e:battery:code2", "second read_runtime_data failed"))
            else:
                if r1["outcome"] != "rejected":
                    violations.append(viol("C08:e2e:battery:other", f"exception {code} on the battery block: outcome "
                                           f"{r1['outcome']}, expected RequestRejectedException"))
                else:
                    check_text(violations, code, r1["msg"], tr)
        elif what == "setting":
            if code == 2:
                if r1["outcome"] != "other:ValueError":
                    violations.append(viol("C08:e2e:setting:code2", f"ILLEGAL DATA ADDRESS on a setting: {r1['outcome']}, "
                                           f"expected ValueError"))
            else:
                if r1["outcome"] not in ("result", "rejected"):
                    violations.append(viol("C08:e2e:setting:other", f"exception {code} on a setting: {r1['outcome']}"))
        elif what == "dt_meter":
            if r1["outcome"] != "result" or "meter_active_power" in r1["value"]:
                violations.append(viol("C08:e2e:dt_meter", f"exception {code} on the DT meter block: {r1['outcome']}"))
        else:
            if code == 2:
                if r1["outcome"] != "other:ValueError":
                    violations.append(viol("C08:e2e:dt_setting:code2", f"{r1['outcome']}, expected ValueError"))
            elif r1["outcome"] not in ("result", "rejected"):
                violations.append(viol("C08:e2e:dt_setting:other", f"exception {code} on a setting: {r1['outcome']}"))
    sig = ("e2e", what, code, tr, state.get("r1", {}).get("outcome"))
    return C.package(world, case, violations, sig, True, {"e2e_runs": 1})


def simplify(case):
    return []


def evidence_extra(tier):
    return {"systematic_cases": len(_space(tier)), "seeded_cases": 0,
            "systematic_part": "all 256 exception codes x command x transport x retry index (+ prior-fragment variants, texts, end-to-end)"}
