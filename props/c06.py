"""C06 - concurrent callers are serialised and each gets the answer to its own request (DESIGN 6/C06)."""
from __future__ import annotations

import asyncio

from sim.net import World, DEFAULT_LATENCY
from sim.device import SimInverter
from . import common as C
from .common import EPS, viol

ID = "C06"
LEVEL = "exploration"
BATCH = 16
RULE = ("(15 % of the seeded cases: the object was used from another event loop before.)  Systematic part: 2 callers, one read each, second caller starting at EVERY offset of {0, 2^-20, lat/2, lat, "
        "tau/2, tau-2^-20, tau, tau+2^-20} x ALL fault scripts of the tier's depth over {prompt, drop, delayed just "
        "inside the timeout, two fragments} x {udp,tcp} x keep-alive x retries {0,1,2}.  Seeded part: "
        "2-4 caller tasks on ONE protocol/inverter object, each issuing 1-3 reads of distinct registers with the same "
        "count (validators cannot tell the answers apart); start offsets and think times from {0, 2^-20, tau/2, tau, "
        "tau+2^-20, ...}; per-transmission fault from {drop, prompt answer, delayed answer strictly inside that "
        "transmission's timeout, two fragments both inside the timeout} (the proviso of the statement); x {udp,tcp} "
        "x keep-alive.  The peer stamps register and transmission number into every payload word.  Non-trivial: >= 2 "
        "callers whose requests overlap in time or any fault fired.  Distinct: the interleaving signature = sequence "
        "of (caller, event kind) over transmissions and deliveries.")
ASSUMPTIONS = [
    "the inverter answers each transmission at most once and before that transmission's timeout (statement's proviso)",
    "fake transports reproduce CPython 3.12 selector transport semantics; asyncio.Lock is the real one",
]
LEVEL_TEXT = ("Seeded exploration of interleavings: real asyncio Tasks and Lock on the simulated loop; the schedule is "
              "decided by plan-chosen start offsets, latencies and faults.  History oracles over the recorded "
              "transmissions/deliveries ordered by (virtual time, global event sequence): own-answer attribution by "
              "stamped payload, and no transmission inside another request's waiting window.")
LEVEL_NOTE = ("Trusted: transport model; ready-queue order is asyncio's FIFO (not permuted, DESIGN 1).")
TECHNIQUE = "deterministic simulation of concurrent callers with seeded start offsets, latencies and benign faults"

N_RANDOM = {"quick": 40_000, "thorough": 3_000_000}
SW_OFFS = ["0", "eps", "lat/2", "lat", "tau/2", "tau-eps", "tau", "tau+eps"]
SW_FAULTS = ["ok", "drop", "delay", "frag"]
SW_DEPTH = {"quick": 3, "thorough": 4}
_SWEEP = {}


def _sweep(tier):
    if tier not in _SWEEP:
        import itertools
        out = []
        for tr in ("udp", "tcp"):
            for ka in (False, True):
                for r in (0, 1, 2):
                    for off in range(len(SW_OFFS)):
                        for fs in itertools.product(range(len(SW_FAULTS)), repeat=SW_DEPTH[tier]):
                            out.append((tr, ka, r, off, fs))
        _SWEEP[tier] = out
    return _SWEEP[tier]


_CANCEL = []


def _cancel_cases():
    """A caller task is cancelled by ITS caller (task.cancel()) while queued for the protocol, or (TCP) while its
    request is in flight; the other callers must still be serialised and get their own answers.  (UDP with keep-alive
    off failed here until fix a3ca2bb: the cancelled caller's close() closed the socket of the request in flight.)"""
    if not _CANCEL:
        tau, lat = 1.0, DEFAULT_LATENCY
        for tr, ka in (("udp", True), ("udp", False), ("tcp", True), ("tcp", False)):
            for r in (0, 1, 2):
                for a_fault in ({"k": "ok", "d": tau / 2}, {"k": "ok", "d": lat}, {"k": "drop"}):
                    for cancel_at in (EPS, lat / 2, tau / 4):
                        for c_start in (3 * EPS, lat, tau / 4 + EPS, tau / 2 - EPS):
                            if a_fault.get("d") == lat and cancel_at >= lat:
                                continue
                            _CANCEL.append({"transport": tr, "keep_alive": ka, "timeout": tau, "retries": r,
                                            "count": 2, "level": "execute", "cancel_mode": "queued",
                                            "callers": [{"start": 0.0, "ops": [{"reg": 0x1001, "think": 0.0}]},
                                                        {"start": EPS, "ops": [{"reg": 0x1002, "think": 0.0,
                                                                                "cancel": cancel_at}]},
                                                        {"start": c_start, "ops": [{"reg": 0x1003, "think": 0.0}]}],
                                            "faults": [dict(a_fault)], "sweep": True})
        for ka in (True, False):
            for r in (0, 1, 2):
                for a_delay in (tau / 2, tau - EPS):
                    for cancel_at in (lat / 2, tau / 4, tau / 2 - EPS):
                        for b_start in (EPS, lat, cancel_at, cancel_at + EPS):
                            _CANCEL.append({"transport": "tcp", "keep_alive": ka, "timeout": tau, "retries": r,
                                            "count": 2, "level": "execute", "cancel_mode": "inflight",
                                            "callers": [{"start": 0.0, "ops": [{"reg": 0x1001, "think": 0.0,
                                                                                "cancel": cancel_at}]},
                                                        {"start": b_start, "ops": [{"reg": 0x1002, "think": 0.0}]},
                                                        {"start": tau / 8, "ops": [{"reg": 0x1003, "think": 0.0}]}],
                                            "faults": [{"k": "ok", "d": a_delay}], "sweep": True})
    return _CANCEL


def warm(tier):
    _sweep(tier)
    _cancel_cases()


def n_cases(tier):
    return len(_sweep(tier)) + len(_cancel_cases()) + N_RANDOM[tier]


def _sweep_case(tier, index):
    tr, ka, r, off, fs = _sweep(tier)[index]
    tau = 1.0
    lat = DEFAULT_LATENCY
    start = {"0": 0.0, "eps": EPS, "lat/2": lat / 2, "lat": lat, "tau/2": tau / 2, "tau-eps": tau - EPS, "tau": tau,
             "tau+eps": tau + EPS}[SW_OFFS[off]]
    count = 2
    hdr = 9 if tr == "tcp" else 5
    faults = []
    for f in fs:
        k = SW_FAULTS[f]
        if k == "ok":
            faults.append({"k": "ok"})
        elif k == "drop":
            faults.append({"k": "drop"})
        elif k == "delay":
            faults.append({"k": "ok", "d": tau - EPS})
        else:
            faults.append({"k": "frag", "s": hdr + 1, "d1": lat, "d2": tau / 2})
    return {"transport": tr, "keep_alive": ka, "timeout": tau, "retries": r, "count": count, "level": "execute",
            "callers": [{"start": 0.0, "ops": [{"reg": 0x1000 + 1, "think": 0.0}]},
                        {"start": start, "ops": [{"reg": 0x1000 + 2, "think": 0.0}]}],
            "faults": faults, "sweep": True}


def make_case(tier, seed, index):
    ns = len(_sweep(tier))
    if index < ns:
        return _sweep_case(tier, index)
    index -= ns
    if index < len(_cancel_cases()):
        import copy
        return copy.deepcopy(_cancel_cases()[index])
    index -= len(_cancel_cases())
    return random_case(C.rng_for(seed, ID, index))


def random_case(rnd):
    tr = rnd.choice(["udp", "tcp"])
    tau = rnd.choice([0.25, 0.5, 1.0, 2.0])
    r = rnd.choice([0, 1, 2, 3])
    ncall = rnd.randint(2, 4)
    level = rnd.choice(["execute", "execute", "inverter"])
    count = 1 if level == "inverter" else rnd.choice([1, 2, 4, 16, 60, 125])
    offs = [0.0, 0.0, EPS, tau / 2, tau - EPS, tau, tau + EPS, 2 * tau, tau / 4, DEFAULT_LATENCY, 2 * DEFAULT_LATENCY]
    base = rnd.randrange(0, 60000)
    regs = rnd.sample(range(0, 250), 12)  # distinct modulo 256 -> distinct stamps
    callers = []
    ri = 0
    for c in range(ncall):
        ops = []
        for _ in range(rnd.randint(1, 3)):
            ops.append({"reg": (base & 0xFF00) + regs[ri], "think": rnd.choice(offs)})
            ri += 1
        callers.append({"start": rnd.choice(offs), "ops": ops})
    kinds = [k for k in ("drop", "delay", "frag") if rnd.random() < 0.6]
    density = rnd.choice([0.0, 0.2, 0.5, 0.8])
    hdr = 9 if tr == "tcp" else 5
    alen = (9 if tr == "tcp" else 7) + 2 * count
    faults = []
    for _ in range(rnd.randint(0, 14)):
        if kinds and rnd.random() < density:
            k = rnd.choice(kinds)
            if k == "drop":
                faults.append({"k": "drop"})
            elif k == "delay":
                faults.append({"k": "ok", "d": rnd.choice([tau / 2, tau - EPS, tau / 4, tau - 2 * EPS])})
            else:
                d1 = rnd.choice([DEFAULT_LATENCY, tau / 4, tau / 2])
                d2 = rnd.choice([x for x in (d1 + EPS, tau / 2 + EPS, tau - EPS) if x > d1])
                faults.append({"k": "frag", "s": rnd.randint(hdr, alen - 1), "d1": d1, "d2": d2})
        else:
            faults.append({"k": "ok"})
    if rnd.random() < 0.12:
        # one of the operations is cancelled by its caller at a seeded instant (queued, in flight, or already done)
        ci = rnd.randrange(len(callers))
        op = rnd.choice(callers[ci]["ops"])
        op["cancel"] = rnd.choice([EPS, DEFAULT_LATENCY / 2, tau / 4, tau / 2, tau - EPS, tau + EPS, 2 * tau])
    cancel_callers = []
    if rnd.random() < 0.08:
        # a caller TASK is cancelled once at a seeded instant, swallows it (the library turns a cancellation into a
        # failure or a retry) and goes on with its remaining operations
        cancel_callers = [{"caller": rnd.randrange(ncall),
                           "at": rnd.choice([EPS, DEFAULT_LATENCY / 2, tau / 4, tau / 2, tau + EPS, 2 * tau, 3 * tau])}]
    toggles = []
    if level == "inverter" and rnd.random() < 0.4:
        # the application switches keep-alive while requests are queued / in flight (Inverter.set_keep_alive)
        toggles = [{"at": rnd.choice(offs + [DEFAULT_LATENCY / 2, tau / 8, 3 * tau / 4]), "on": rnd.random() < 0.4}
                   for _ in range(rnd.randint(1, 2))]
    return {"transport": tr, "keep_alive": rnd.random() < 0.5, "timeout": tau, "retries": r, "count": count,
            "level": level, "callers": callers, "faults": faults, "toggles": toggles,
            "same_contents": rnd.random() < 0.1, "cancel_callers": cancel_callers,
            # (not when the callers' registers share a 256-block with the registers read_device_info() itself reads:
            # the oracle attributes transmissions to requests by register)
            "info_at": [rnd.choice(offs)] if level == "inverter" and rnd.random() < 0.3
            and (base >> 8) not in (0x88, 0xB9) else [],
            # the object has been used from another event loop before (a previous asyncio.run)
            "prior_loop": rnd.choice([False] * 11 + [True, "contended", "contended"])}


def simplify(case):
    out = []
    if case.get("prior_loop"):
        out.append(dict(case, prior_loop=False))
    if case.get("toggles"):
        out.append(dict(case, toggles=case["toggles"][1:]))
    if case.get("same_contents"):
        out.append(dict(case, same_contents=False))
    if case.get("cancel_callers"):
        out.append(dict(case, cancel_callers=[]))
    if case.get("info_at"):
        out.append(dict(case, info_at=[]))
    for ci, c in enumerate(case["callers"]):
        for oi, op in enumerate(c["ops"]):
            if op.get("cancel") is not None and not case.get("cancel_mode"):
                import copy
                cc = copy.deepcopy(case)
                del cc["callers"][ci]["ops"][oi]["cancel"]
                out.append(cc)
    for ci, c in enumerate(case["callers"]):
        if c["start"]:
            cc = dict(case)
            cc["callers"] = [dict(x) for x in case["callers"]]
            cc["callers"][ci]["start"] = 0.0
            out.append(cc)
    if case["level"] == "inverter":
        out.append(dict(case, level="execute"))
    if case["count"] > 2 and case["level"] == "execute":
        # keep fragment split points valid
        if not any(f["k"] == "frag" for f in case["faults"]):
            out.append(dict(case, count=2))
    return out


def simulate(case):
    """Runs the concurrent-caller workload; returns (world, dev, results, status)."""
    goodwe, gp, ge = C.goodwe_mods()
    tr, tau, r, count = case["transport"], case["timeout"], case["retries"], case["count"]
    world = World(faults=case["faults"], max_steps=100_000)
    dev = SimInverter(mode="stamp")
    if case.get("same_contents"):
        # all registers hold the same value: the answers to different requests are the same bytes (what a filter for
        # 'repeated datagrams' would take for duplicates)
        dev = SimInverter(mode="file", fill="constw")
        dev.const_word = 0x0102
        dev.stamp_payload = lambda reg, count, tx: b"\x01\x02" * count
    world.net.add_device(C.HOST, C.port_of(tr), dev)
    results = []
    if case["level"] == "inverter":
        inv = goodwe.ET(C.HOST, C.port_of(tr), 0xF7, tau, r)
        inv.set_keep_alive(case["keep_alive"])
    else:
        proto = C.make_protocol(tr, tau, r, case["keep_alive"])

    async def nap(d):
        try:
            await asyncio.sleep(d)
        except asyncio.CancelledError:
            pass   # an application task that shrugs a cancellation off and goes on polling

    async def caller(ci, spec):
        me = asyncio.current_task()
        if spec["start"]:
            await nap(spec["start"])
        for oi, op in enumerate(spec["ops"]):
            if op["think"]:
                await nap(op["think"])
            label = f"c{ci}o{oi}"
            seen = me.cancelling() if hasattr(me, "cancelling") else 0

            async def one(op=op, label=label):
                if case["level"] == "inverter":
                    return await C.do_call(world, label, lambda: inv.read_sensor("modbus-%d" % op["reg"]))
                return await C.do_execute(world, proto, {"op": "read", "reg": op["reg"], "count": count}, label)
            if op.get("cancel") is not None:
                # the caller of this caller cancels it after a delay
                t = asyncio.ensure_future(one())
                t.set_name(label)
                await nap(op["cancel"])
                t.cancel()
                try:
                    rec = await t
                except asyncio.CancelledError:
                    rec = {"label": label, "outcome": "cancelled", "t0": None, "t1": world.clock.now}
                rec["cancelled"] = True
            else:
                try:
                    rec = await one()
                except asyncio.CancelledError:
                    rec = {"label": label, "outcome": "cancelled", "t0": None, "t1": world.clock.now, "cancelled": True}
            if hasattr(me, "cancelling") and me.cancelling() > seen:
                rec["cancelled"] = True   # the caller TASK was cancelled during this operation (and carried on)
            rec["caller"] = ci
            rec["reg"] = op["reg"]
            rec["seq0"] = None
            results.append(rec)

    async def toggler(spec):
        await asyncio.sleep(spec["at"])
        inv.set_keep_alive(spec["on"])

    async def main():
        tasks = [asyncio.ensure_future(caller(ci, spec)) for ci, spec in enumerate(case["callers"])]
        for i, t in enumerate(tasks):
            t.set_name(f"caller{i}")
        for j, cc in enumerate(case.get("cancel_callers") or ()):
            async def canceller(cc=cc):
                await asyncio.sleep(cc["at"])
                if not tasks[cc["caller"]].done():
                    tasks[cc["caller"]].cancel()
            t = asyncio.ensure_future(canceller())
            t.set_name(f"canceller{j}")
            tasks.append(t)
        if case["level"] == "inverter":
            for j, at in enumerate(case.get("info_at") or ()):
                async def refresher(at=at):
                    # another task refreshes the device info meanwhile (its own outcome is not judged: the peer's
                    # stamped payloads are no device info)
                    await asyncio.sleep(at)
                    try:
                        await inv.read_device_info()
                    except Exception:  # noqa
                        pass
                t = asyncio.ensure_future(refresher())
                t.set_name(f"refresher{j}")
                tasks.append(t)
            for j, spec in enumerate(case.get("toggles") or ()):
                t = asyncio.ensure_future(toggler(spec))
                t.set_name(f"toggler{j}")
                tasks.append(t)
        await asyncio.gather(*tasks)

    if case.get("prior_loop"):
        async def warm():
            world.net.begin_script([], {"k": "ok"})

            async def w(reg):
                if case["level"] == "inverter":
                    await C.do_call(world, "warm", lambda: inv.read_sensor("modbus-%d" % reg))
                else:
                    await C.do_execute(world, proto, {"op": "read", "reg": reg, "count": count}, "warm")
            if case["prior_loop"] == "contended":
                # two overlapping requests there too: the second one had to WAIT for the lock in that loop
                await asyncio.gather(w(0xFFF0), w(0xFFF1))
            else:
                await w(0xFFF0)
        status, _ = C.run_world(world, warm())
        if status != "ok":
            return world, dev, results, status
        world.net.begin_script(case["faults"], {"k": "ok"})
    status, _ = C.run_world(world, main())
    return world, dev, results, status


def by_register(net, tr):
    """attribute transmissions to requests by the register in the request frame"""
    reg_of = {}
    for t in net.transmissions:
        d = t["data"]
        reg = ((d[8] << 8) | d[9]) if tr == "tcp" else ((d[2] << 8) | d[3])
        t["reg"] = reg
        reg_of.setdefault(reg, []).append(t)
    return reg_of


def run_case(case):
    tr, tau, r, count = case["transport"], case["timeout"], case["retries"], case["count"]
    world, dev, results, status = simulate(case)
    violations = []
    net = world.net
    if status != "ok":
        violations.append(viol(f"C06:hang:{tr}", f"callers did not terminate: {status} at t={world.clock.now}"))
    reg_of = by_register(net, tr)
    # event sequence numbers of tx and deliveries come from the world log
    seq_tx = {}
    seq_dl = []
    for e in world.events:
        if e[2] == "tx":
            seq_tx[e[3]] = e[0]
    # completion point of each transmission's answer: last delivered piece
    done_at = {}
    for dl in net.deliveries:
        if dl["status"] == "delivered" and dl["kind"] == "data":
            i = dl["tx"]
            key = (dl["t_run"],)
            done_at.setdefault(i, []).append(dl)
    complete = {}
    for i, dls in done_at.items():
        f = net.transmissions[i]["f"]
        need = 2 if f["k"] == "frag" else 1
        if len(dls) >= need:
            complete[i] = max(d["t_run"] for d in dls)
    # (2) one request on the wire
    txs = net.transmissions
    returned = {rec["reg"]: rec["t1"] for rec in results if rec.get("cancelled")}
    for a in txs:
        for b in txs:
            if a is b or a["reg"] == b["reg"]:
                continue
            # b transmitted while a's request was still inside the waiting window of transmission a?
            later = (b["t"] > a["t"]) or (b["t"] == a["t"] and b["i"] > a["i"])
            if not later:
                continue
            end = a["t"] + tau
            ca = complete.get(a["i"])
            if ca is not None and ca < end:
                end = ca
            if a["reg"] in returned and returned[a["reg"]] < end:
                end = returned[a["reg"]]   # a cancelled request that has returned waits for nothing
            if b["t"] < end:
                violations.append(viol(f"C06:overlap:{tr}",
                                       f"transmission #{b['i']} (reg {b['reg']}) at t={b['t']} while request for reg "
                                       f"{a['reg']} was waiting for the answer to transmission #{a['i']} sent at "
                                       f"t={a['t']} (window ends {end})"))
                break
        if violations:
            break
    # (1) own answer, (3) outcome
    for rec in results:
        own = reg_of.get(rec["reg"], [])
        if case["level"] == "inverter":
            if rec["outcome"] == "result":
                v = rec["value"] & 0xFFFF
                got = bytes((v >> 8, v & 0xFF))
            else:
                got = None
        else:
            got = rec.get("data")
        answered = [t for t in own if t["fault"] != "drop"]
        if rec["outcome"] == "result":
            wanted = {dev.stamp_payload(rec["reg"], count, t["i"]) for t in own}
            if got not in wanted:
                whose = [(t["reg"], t["i"]) for t in txs if dev.stamp_payload(t["reg"], count, t["i"]) == got]
                violations.append(viol(f"C06:foreign-answer:{tr}",
                                       f"caller {rec['caller']} asked for reg {rec['reg']} and received {got.hex()} "
                                       f"which answers {whose or 'no transmission'}"))
        elif rec.get("cancelled"):
            pass
        elif rec["outcome"] in ("failed", "maxretries"):
            if answered:
                violations.append(viol(f"C06:lost-answer:{tr}",
                                       f"caller {rec['caller']} reg {rec['reg']}: failed although transmission(s) "
                                       f"{[t['i'] for t in answered]} were answered in time"))
        else:
            violations.append(viol(f"C06:outcome:{tr}:{rec['outcome']}",
                                   f"caller {rec['caller']} reg {rec['reg']}: {rec['outcome']} {rec.get('exc')!r}"))
        if rec["outcome"] == "result" and not answered and not rec.get("cancelled"):
            violations.append(viol(f"C06:phantom-answer:{tr}",
                                   f"caller {rec['caller']} reg {rec['reg']} succeeded but none of its transmissions "
                                   f"was answered"))
    if status == "ok" and len(results) != sum(len(c["ops"]) for c in case["callers"]):
        violations.append(viol(f"C06:missing-result:{tr}", "a caller ended without an outcome"))
    # interleaving signature
    who = {}
    for ci, c in enumerate(case["callers"]):
        for op in c["ops"]:
            who[op["reg"]] = ci
    evs = []
    for e in world.events:
        if e[2] == "tx":
            evs.append((who.get(net.transmissions[e[3]]["reg"]), "tx", net.transmissions[e[3]]["fault"]))
        elif e[2] == "deliver":
            evs.append(("d",))
        elif e[2] in ("invoke", "return"):
            evs.append((e[2][0], e[3]))
    sig = (tr, case["keep_alive"], r, tuple(evs))
    # probe: a retry re-queued behind another caller
    requeued = 0
    for reg, lst in reg_of.items():
        for x, y in zip(lst, lst[1:]):
            if any(t["reg"] != reg for t in txs[x["i"] + 1:y["i"]]):
                requeued += 1
    overlap_in_time = 0
    rs = sorted([q for q in results if q.get("t0") is not None], key=lambda q: q["t0"])
    for x, y in zip(rs, rs[1:]):
        if y["t0"] < x["t1"] or (y["t0"] == x["t1"]):
            overlap_in_time += 1
    nontrivial = overlap_in_time > 0 or any(t["fault"] != "ok" for t in txs)
    probes = {"retry_requeued_behind_other_caller": requeued, "callers_overlapping": overlap_in_time,
              "requests": len(results), "fragments_composed": sum(1 for i in complete if txs[i]["f"]["k"] == "frag"),
              "keep_alive_switched_mid_run": len(case.get("toggles") or ()) if case["level"] == "inverter" else 0,
              "caller_task_cancelled": len(case.get("cancel_callers") or ()),
              "caller_cancelled_seeded": sum(1 for c in case["callers"] for op in c["ops"] if op.get("cancel") is not None
                                              and not case.get("cancel_mode")),
              "caller_cancelled_queued": 1 if case.get("cancel_mode") == "queued" else 0,
              "caller_cancelled_inflight": 1 if case.get("cancel_mode") == "inflight" else 0}
    return C.package(world, case, violations, sig, nontrivial, probes)


def evidence_extra(tier):
    return {"systematic_cases": len(_sweep(tier)), "cancellation_cases": len(_cancel_cases()),
            "seeded_cases": N_RANDOM[tier],
            "systematic_part": "2 callers x 8 start offsets x all fault scripts of depth %d over 4 symbols x 12 configurations" % SW_DEPTH[tier]}
