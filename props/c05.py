"""C05 - retry budget and timeout are per request and exactly as configured (DESIGN 6/C05)."""
from __future__ import annotations

import asyncio
import itertools

from sim.net import World, DEFAULT_LATENCY
from sim.device import SimInverter
from . import common as C
from .common import EPS, viol

ID = "C05"
LEVEL = "exploration"
BATCH = 16
RULE = ("Histories of 1-6 requests on ONE protocol/inverter object; every request has a scripted outcome "
        "{ok, k drops then ok, retries exhausted (silent), k drops then exception frame, send error, ICMP error, "
        "peer reset/close, connect refused}, think times in {0, tau/2, tau, 3tau}, optional change of event loop "
        "between requests.  Every request whose script is 'k drops then X' is itself a probe: it must show exactly "
        "min(k+1, retries+1) identical transmissions spaced exactly one timeout apart and end as scripted.  "
        "Systematic part: all outcome sequences up to the tier's length before a final probe x {udp,tcp} x keep-alive "
        "x (timeout,retries) grid; plus entry points connect()/discover()/search_inverters() against silent and "
        "selectively answering peers; plus seeded random histories; plus CONCURRENT callers (2-4 tasks, C06's "
        "workload) against a lossy or silent peer: every request, whoever else is in progress on the object, makes at "
        "most retries+1 transmissions and does not give up before it has made them.  Non-trivial: a history with at least one "
        "non-ok request; distinct: (config, sequence of (type,k,think-bucket,newloop), observed tx counts).")
ASSUMPTIONS = [
    "fake transports reproduce CPython 3.12 selector transport semantics (DESIGN 2.2)",
    "per-request fault scripts: a request that transmits more or less often than planned does not shift the faults "
    "of later requests",
]
LEVEL_TEXT = ("Seeded exploration of request histories (plus a complete sweep of short outcome sequences) on the "
              "simulated loop; the oracle is exact because time is virtual: transmissions are compared with "
              "t0 + i*timeout using ==.  Entry points are driven through the public functions with a grid of "
              "(timeout, retries).  Evidence, not proof, beyond the enumerated sequence length.")
LEVEL_NOTE = ("Trusted: transport model, virtual clock.  Requests after a transport error are checked, the erroring "
              "request itself is not (that is C04/C09).")
TECHNIQUE = "deterministic simulation of request histories with scripted per-request fault sequences"

TYPES = ["ok", "drops_ok", "exhaust", "drops_exc", "senderr", "icmp", "rst", "fin", "refused", "drops_sockerr",
         "stray_frag", "senderr_all", "garbage_ok", "unreach", "drops_unreach", "garbage2", "drops_frag", "lonefrag_all", "garbage_silent", "slow_connect"]
SETTINGS = [(0.5, 1), (1.0, 3), (0.25, 2)]
SWEEP_LEN = {"quick": 2, "thorough": 3}
N_RANDOM = {"quick": 25_000, "thorough": 1_000_000}
PROBES = ["exhaust", "drops_ok_max"]
FAMILIES = ["ET", "ES", "DT"]
EP_GRID = [(1, 3), (2, 1), (0.5, 0), (3, 2), (1, 0), (0.25, 5)]

_SPACE = {}


def _types_for(tr):
    if tr == "udp":
        return [t for t in TYPES if t not in ("rst", "fin", "refused", "unreach", "drops_unreach", "slow_connect")]
    return [t for t in TYPES if t not in ("icmp", "drops_sockerr")]


UDP_EXCLUDED = ("rst", "fin", "refused", "unreach", "drops_unreach")


def _space(tier):
    if tier not in _SPACE:
        cases = []
        for tr in ("udp", "tcp"):
            ts = _types_for(tr)
            seqs = []
            for n in range(0, SWEEP_LEN[tier] + 1):
                seqs.extend(itertools.product(ts, repeat=n))
            for ka in (False, True):
                for si in range(len(SETTINGS)):
                    for seq in seqs:
                        for probe in PROBES:
                            cases.append(("history", tr, ka, si, seq, probe))
        # entry points
        for fam in FAMILIES:
            for (tau, r) in EP_GRID:
                for tr in ("udp", "tcp"):
                    cases.append(("connect", fam, tau, r, tr))
        for fam in FAMILIES:
            for i, (tau, r) in enumerate(EP_GRID):
                tau2, r2 = EP_GRID[(i + 2) % len(EP_GRID)]
                for tr in ("udp", "tcp"):
                    cases.append(("connect2", fam, tau, r, tr, tau2, r2))
        for (tau, r) in EP_GRID:
            for answering in ("none", "ET", "DT", "ES", "AA55+ET"):
                cases.append(("discover", tau, r, answering))
        for answer_at in (None, 0.5, 0.5 + EPS, 1.0 - EPS):
            cases.append(("search", answer_at))
        _SPACE[tier] = cases
    return _SPACE[tier]


def warm(tier):
    _space(tier)


N_CONCURRENT = {"quick": 4_000, "thorough": 200_000}


def n_cases(tier):
    return len(_space(tier)) + N_RANDOM[tier] + N_CONCURRENT[tier]


def _mkreq(rnd, typ, tau, r, tr, think=None, newloop=False):
    q = {"type": typ, "think": think if think is not None else rnd.choice([0.0, 0.0, tau / 2, tau, 3 * tau]),
         "newloop": newloop}
    if typ in ("drops_ok", "drops_exc", "drops_frag"):
        q["k"] = rnd.randint(0 if typ == "drops_exc" else 1, r) if r > 0 else 0
    if typ == "drops_unreach":
        q["k"] = rnd.randint(1, r) if r > 0 else 0
    if typ in ("unreach", "drops_unreach"):
        q["errno"] = rnd.choice([113, 101])
    if typ == "drops_sockerr":
        q["k"] = rnd.randint(1, r) if r > 0 else 0
        q["errno"] = rnd.choice([101, 24])
    if typ == "stray_frag":
        q["d"] = rnd.choice([2 * DEFAULT_LATENCY, tau / 2])
        q["s"] = rnd.choice([5, 7, 9])
    if typ == "drops_exc":
        q["code"] = rnd.choice([1, 2, 3, 4, 6, 77])
    if typ in ("senderr", "icmp", "senderr_all"):
        q["errno"] = 111  # ECONNREFUSED: the one error the library maps itself; other errnos are C09's subject
    if typ in ("icmp", "rst", "fin", "lonefrag_all", "garbage_silent"):
        q["d"] = rnd.choice([DEFAULT_LATENCY, tau / 2, tau - EPS])
    if typ == "slow_connect":
        q["d"] = min(4.5, rnd.choice([tau + EPS, 2 * tau, 4 * tau]))   # below the 5 s the library waits for a connection
    return q


def make_concurrent(rnd):
    """2-4 concurrent callers (C06's workload) against a lossy or silent peer: the budget is per REQUEST also when
    the requests of several callers are in progress at the same time."""
    from . import c06
    case = c06.random_case(rnd)
    case["level"] = "execute"
    p = rnd.choice([0.3, 0.6, 1.0])
    n = rnd.choice([2, 4, 8, 40])
    case["faults"] = [{"k": "drop"} if rnd.random() < p else {"k": "ok"} for _ in range(n)]
    case["count"] = min(case["count"], 16)
    case["kind"] = "concurrent"
    return case


def make_case(tier, seed, index):
    rnd = C.rng_for(seed, ID, index)
    space = _space(tier)
    if index >= len(space) + N_RANDOM[tier]:
        return make_concurrent(rnd)
    if index < len(space):
        c = space[index]
        if c[0] == "history":
            _, tr, ka, si, seq, probe = c
            tau, r = SETTINGS[si]
            reqs = [_mkreq(rnd, t, tau, r, tr) for t in seq]
            if probe == "exhaust":
                reqs.append(_mkreq(rnd, "exhaust", tau, r, tr))
            else:
                q = _mkreq(rnd, "drops_ok", tau, r, tr)
                q["k"] = r
                reqs.append(q)
            return {"kind": "history", "sweep": True, "transport": tr, "keep_alive": ka, "timeout": tau, "retries": r,
                    "level": "execute" if index % 2 == 0 else "inverter", "reqs": reqs}
        if c[0] == "connect":
            return {"kind": "connect", "family": c[1], "timeout": c[2], "retries": c[3], "transport": c[4]}
        if c[0] == "connect2":
            return {"kind": "connect", "family": c[1], "timeout": c[2], "retries": c[3], "transport": c[4],
                    "second": [c[5], c[6]]}
        if c[0] == "discover":
            return {"kind": "discover", "timeout": c[1], "retries": c[2], "answering": c[3]}
        return {"kind": "search", "answer_at": c[1]}
    tr = rnd.choice(["udp", "tcp"])
    ka = rnd.random() < 0.5
    tau = rnd.choice([0.25, 0.5, 1.0, 2.0, 3.0])
    r = rnd.choice([0, 1, 2, 3, 5])
    ts = _types_for(tr)
    enabled = [t for t in ts if rnd.random() < 0.6] or ["ok"]
    n = rnd.randint(1, 6)
    reqs = []
    level = rnd.choice(["execute", "inverter"])
    retunes = level == "execute" and rnd.random() < 0.3
    ct, cr = tau, r
    for j in range(n + 1):
        retune = None
        if retunes and j > 0 and rnd.random() < 0.4:
            ct, cr = rnd.choice([0.25, 0.5, 1.0, 2.0]), rnd.choice([0, 1, 2, 3, 5])
            retune = [ct, cr]
        if j < n:
            q = _mkreq(rnd, rnd.choice(enabled), ct, cr, tr, newloop=(j > 0 and rnd.random() < 0.15))
        else:
            q = _mkreq(rnd, rnd.choice(["exhaust", "drops_ok", "drops_exc"]), ct, cr, tr, newloop=rnd.random() < 0.1)
        if retune:
            q["retune"] = retune
        reqs.append(q)
    return {"kind": "history", "sweep": False, "transport": tr, "keep_alive": ka, "timeout": tau, "retries": r,
            "level": level, "reqs": reqs}


def key_class(key):
    """C05:<aspect>:<transport>:after=<type> -> the 'after' part may change while shrinking (the minimal history
    names the real culprit)."""
    return key.split(":after=")[0]


def simplify(case):
    out = []
    if case["kind"] == "history":
        for i, q in enumerate(case["reqs"]):
            if q.get("think"):
                c = dict(case)
                c["reqs"] = [dict(x) for x in case["reqs"]]
                c["reqs"][i]["think"] = 0.0
                out.append(c)
            if q.get("newloop"):
                c = dict(case)
                c["reqs"] = [dict(x) for x in case["reqs"]]
                c["reqs"][i]["newloop"] = False
                out.append(c)
        if case["level"] == "inverter":
            out.append(dict(case, level="execute"))
    return out


def _script(q, tau, r, tr):
    """-> (faults, default_fault, connects, expectation or None)"""
    t = q["type"]
    ok = {"k": "ok"}
    drop = {"k": "drop"}
    if t == "ok":
        return [ok], ok, [], {"tx": 1, "outcome": "result"}
    if t == "drops_ok":
        k = min(q["k"], r)
        return [drop] * k + [ok], ok, [], {"tx": k + 1, "outcome": "result"}
    if t == "drops_frag":
        # k lost transmissions, then the answer arrives in two pieces (success through the reassembly path)
        k = min(q["k"], r)
        return [drop] * k + [{"k": "frag", "s": 9, "d1": DEFAULT_LATENCY, "d2": tau / 4}], ok, [], \
            {"tx": k + 1, "outcome": "result"}
    if t == "exhaust":
        return [], drop, [], {"tx": r + 1, "outcome": "failed"}
    if t == "garbage_silent":
        # a stray datagram/segment that is not an answer arrives during the first wait, nothing else ever does: the
        # request stays within its transmissions AND within (retries + 1) x timeout
        return [{"k": "garbage", "n": 11, "seed": 9, "d": q.get("d", tau / 4)}], drop, [], \
            {"tx_max": r + 1, "outcome": "failed", "t_max": (r + 1) * tau}
    if t == "slow_connect":
        # TCP: establishing the connection takes longer than the response timeout (but less than the 5 s the library
        # allows for it); the peer then stays silent: the connection time is not charged to the retry budget
        return [], drop, [{"k": "ok", "d": min(4.5, q.get("d", 2 * tau))}], {"tx": r + 1, "outcome": "failed", "nospacing": True}
    if t == "lonefrag_all":
        # every transmission is answered by the first piece of the answer only; the rest never comes
        return [], {"k": "lonefrag", "s": 10 if tr == "tcp" else 6, "d1": q.get("d", DEFAULT_LATENCY)}, [], \
            {"tx": r + 1, "outcome": "failed", "nospacing": True}
    if t == "drops_exc":
        k = min(q["k"], r)
        return [drop] * k + [{"k": "exc", "code": q["code"]}], ok, [], {"tx": k + 1, "outcome": "rejected"}
    if t == "senderr":
        return [{"k": "senderr", "errno": q["errno"]}], ok, [], None
    if t == "senderr_all":
        # EVERY transmission of this request ends in a send error: whatever the library does with socket errors
        # (fail at once / retry), it must stay within the configured budget
        return [], {"k": "senderr", "errno": q["errno"]}, [], {"tx_max": r + 1, "outcome": "failed"}
    if t == "icmp":
        return [{"k": "drop", "then": [{"ev": "icmp", "d": q["d"], "errno": q["errno"]}]}], ok, [], None
    if t in ("rst", "fin"):
        return [{"k": "drop", "then": [{"ev": t, "d": q["d"]}]}], ok, [], None
    if t == "refused":
        return [], ok, [{"k": "refused", "d": 0.0}], None
    if t == "garbage_ok":
        # an invalid datagram/segment in the middle of the wait, then (after the immediate retry on UDP / the
        # rejection on TCP) everything is answered
        return [{"k": "garbage", "n": 12, "seed": 7, "d": tau / 4}], ok, [], None
    if t == "garbage2":
        # the first transmission is answered by TWO invalid datagrams back to back (e.g. a duplicated bad answer),
        # everything after that is lost
        return [{"k": "multi", "parts": [{"what": "garbage", "n": 11, "seed": 3, "d": tau / 4},
                                        {"what": "garbage", "n": 11, "seed": 3, "d": tau / 4}]}], drop, [], None
    if t == "unreach":
        return [], ok, [{"k": "unreach", "d": 0.0, "errno": q["errno"]}], None
    if t == "drops_unreach":
        # k lost transmissions (each timeout closes the TCP connection), then every reconnect fails as unreachable
        k = min(q["k"], r)
        return [drop] * k, ok, [ok] + [{"k": "unreach", "d": 0.0, "errno": q["errno"]}] * (r + 2), None
    if t == "drops_sockerr":
        # k lost transmissions, then creating the socket for the next retry fails (keep-alive off: every retry
        # opens a new socket; with keep-alive the socket is reused and the script degenerates to k drops then ok)
        k = min(q["k"], r)
        return [drop] * k + [ok], ok, [ok] * k + [{"k": "sockerr", "errno": q["errno"]}], None
    if t == "stray_frag":
        # answered at once; a stray first fragment of the same answer arrives later on the (possibly idle) socket
        return [{"k": "ok", "then": [{"ev": "data", "what": "prefix", "s": q["s"], "d": q["d"]}]}], ok, [], \
            {"tx": 1, "outcome": "result"}
    raise ValueError(t)


def run_concurrent(case):
    from . import c06
    tr, r = case["transport"], case["retries"]
    world, dev, results, status = c06.simulate(case)
    violations = []
    if status != "ok":
        violations.append(viol(f"C05:hang:concurrent:{tr}", f"callers did not terminate: {status}"))
    reg_of = c06.by_register(world.net, tr)
    for rec in sorted(results, key=lambda q: (q["caller"], q["reg"])):
        own = reg_of.get(rec["reg"], [])
        n = len(own)
        others = sorted({t["reg"] for t in world.net.transmissions} - {rec["reg"]})
        if n > r + 1:
            violations.append(viol(f"C05:concurrent:over-budget:{tr}",
                                   f"caller {rec['caller']} reg {rec['reg']}: {n} transmissions with retries={r} while "
                                   f"requests for {others} were in progress on the same object"))
            break
        if rec.get("cancelled"):
            continue   # cancelled by its caller: it may give up early, it must only stay within the budget
        if rec["outcome"] in ("failed", "maxretries") and n < r + 1:
            violations.append(viol(f"C05:concurrent:under-budget:{tr}",
                                   f"caller {rec['caller']} reg {rec['reg']}: gave up after {n} transmission(s) with "
                                   f"retries={r} (all lost) while requests for {others} were in progress on the same object"))
            break
    txs = world.net.transmissions
    sig = (tr, case["keep_alive"], r, tuple((t["reg"] & 0xFF, t["fault"]) for t in txs[:24]))
    interleaved = any(a["reg"] != b["reg"] for a, b in zip(txs, txs[1:]))
    return C.package(world, case, violations, sig, interleaved,
                     {"concurrent_cases": 1, "concurrent_requests": len(results),
                      "concurrent_interleaved": 1 if interleaved else 0})


def run_case(case):
    if case["kind"] == "concurrent":
        return run_concurrent(case)
    if case["kind"] == "history":
        return run_history(case)
    if case["kind"] == "connect":
        return run_connect(case)
    if case["kind"] == "discover":
        return run_discover(case)
    return run_search(case)


def check_group(violations, txs, tau, r, tr, t_end, outcome, exp, after, what):
    """txs: transmissions of one request; exp: {"tx": n, "outcome": o}"""
    n = len(txs)
    if "tx_max" in exp:
        if exp.get("t_max") is not None and t_end is not None and txs and t_end - txs[0]["t"] > exp["t_max"] + 1e-9:
            violations.append(viol(f"C05:end:{tr}:after={after}",
                                   f"{what}: failure reported {t_end - txs[0]['t']} after the first transmission, the "
                                   f"budget is (retries + 1) x timeout = {exp['t_max']}"))
        if n > exp["tx_max"]:
            violations.append(viol(f"C05:budget:{tr}:after={after}",
                                   f"{what}: {n} transmissions, at most {exp['tx_max']} allowed (retries={r})"))
        elif outcome not in ("failed", "maxretries"):
            violations.append(viol(f"C05:outcome:{tr}:after={after}", f"{what}: outcome {outcome}, expected failed"))
        return
    if n != exp["tx"]:
        violations.append(viol(f"C05:budget:{tr}:after={after}",
                               f"{what}: {n} transmissions, expected {exp['tx']} (retries={r}, timeout={tau})"))
        return
    t0 = txs[0]["t"]
    times = [t["t"] for t in txs]
    want = [t0 + i * tau for i in range(n)]
    if exp.get("nospacing"):
        # the wait restarts when a piece arrives: only the count and the outcome are fixed
        oc = "failed" if outcome in ("failed", "maxretries") else outcome
        if oc != exp["outcome"]:
            violations.append(viol(f"C05:outcome:{tr}:after={after}", f"{what}: outcome {outcome}, expected {exp['outcome']}"))
        return
    if times != want:
        violations.append(viol(f"C05:spacing:{tr}:after={after}",
                               f"{what}: transmissions at {times}, expected {want}"))
        return
    if len({C.strip_tcp_tx(t["data"], tr) for t in txs}) > 1:
        violations.append(viol(f"C05:bytes:{tr}:after={after}", f"{what}: retransmissions differ"))
    oc = "failed" if outcome in ("failed", "maxretries") else outcome
    if exp["outcome"] is not None and oc != exp["outcome"]:
        violations.append(viol(f"C05:outcome:{tr}:after={after}",
                               f"{what}: outcome {outcome}, expected {exp['outcome']}"))
        return
    if exp["outcome"] == "failed" and t_end is not None and t_end != times[-1] + tau:
        violations.append(viol(f"C05:end:{tr}:after={after}",
                               f"{what}: failure reported at {t_end}, expected {times[-1] + tau}"))


def run_history(case):
    goodwe, gp, ge = C.goodwe_mods()
    tr = case["transport"]
    tau = case["timeout"]
    r = case["retries"]
    world = World(max_steps=50_000)
    dev = SimInverter(mode="stamp")
    world.net.add_device(C.HOST, C.port_of(tr), dev)
    recs = []
    if case["level"] == "inverter":
        inv = goodwe.ET(C.HOST, C.port_of(tr), 0xF7, tau, r)
        inv.set_keep_alive(case["keep_alive"])

        async def one(label, j):
            return await C.do_call(world, label, lambda: inv.read_sensor("modbus-%d" % (35100 + j)))
    else:
        proto = C.make_protocol(tr, tau, r, case["keep_alive"])

        async def one(label, j):
            return await C.do_execute(world, proto, {"op": "read", "reg": 35100 + j, "count": 2}, label)

    # split into segments by loop change
    segs = []
    for j, q in enumerate(case["reqs"]):
        if j == 0 or q.get("newloop"):
            segs.append([])
        segs[-1].append((j, q))

    cur = {"tau": tau, "r": r}

    async def segment(items):
        for j, q in items:
            if q.get("think"):
                await asyncio.sleep(q["think"])
            if q.get("retune") and case["level"] != "inverter":
                # the application changes the (public) timeout / retries attributes of the protocol between requests
                cur["tau"], cur["r"] = q["retune"]
                proto.timeout, proto.retries = cur["tau"], cur["r"]
            faults, default, connects, exp = _script(q, cur["tau"], cur["r"], tr)
            world.net.begin_script(faults, default, connects)
            rec = await one("req%d" % j, j)
            rec["exp"] = exp
            rec["j"] = j
            rec["tau"], rec["r"] = cur["tau"], cur["r"]
            recs.append(rec)
            if q["type"] == "stray_frag":
                # the stray piece must arrive while the socket is IDLE (during a request it would legitimately
                # prolong that request's wait, which is not what this history element is about)
                await asyncio.sleep(q["d"] + 2 * EPS)

    status = "ok"
    for items in segs:
        status, _ = C.run_world(world, segment(items))
        if status != "ok":
            break
    violations = []
    net = world.net
    if status != "ok":
        # a hang is C04's subject; report it here only as inability to evaluate (harness-level outcome)
        violations.append(viol(f"C05:hang:{tr}", f"history did not terminate: {status}"))
    counts = []
    for rec in recs:
        j = rec["j"]
        q = case["reqs"][j]
        txs = net.transmissions[rec["tx0"]:rec["tx1"]]
        counts.append(len(txs))
        if j == 0:
            after = "first"
        else:
            after = case["reqs"][j - 1]["type"] + ("+newloop" if q.get("newloop") else "")
        exp = rec["exp"]
        if exp is None or not txs:
            if exp is not None and not txs:
                violations.append(viol(f"C05:budget:{tr}:after={after}", f"request {j} ({q['type']}): no transmission"))
                break
            continue
        check_group(violations, txs, rec["tau"], rec["r"], tr, rec["t1"], rec["outcome"], exp, after,
                    f"request {j} ({q['type']}{', after retune to %r' % (q['retune'],) if q.get('retune') else ''})")
        if violations:
            break  # later requests of the same history are consequences; report the first deviation only
    sig = (tr, case["keep_alive"], tau, r, case["level"],
           tuple((q["type"], q.get("k"), C.tbucket(q.get("think") or 0.0, tau), bool(q.get("newloop")))
                 for q in case["reqs"]), tuple(counts))
    nontrivial = any(q["type"] != "ok" for q in case["reqs"])
    probes = {
        "loop_changes": sum(1 for q in case["reqs"] if q.get("newloop")),
        "requests": len(recs),
        "probe_after_exhaust": sum(1 for a, b in zip(case["reqs"], case["reqs"][1:]) if a["type"] == "exhaust"),
        "probe_after_transport_error": sum(1 for a, b in zip(case["reqs"], case["reqs"][1:])
                                           if a["type"] in ("senderr", "icmp", "rst", "fin", "refused")),
        "loop_exception_seen": 1 if world.loop_exceptions else 0,
        "retuned_requests": sum(1 for q in case["reqs"] if q.get("retune")) if case["level"] != "inverter" else 0,
    }
    return C.package(world, case, violations, sig, nontrivial, probes)


def _groups(txs, tr):
    """Consecutive transmissions with identical bytes (mod tcp tx id)."""
    out = []
    for t in txs:
        key = C.strip_tcp_tx(t["data"], tr)
        if out and out[-1][0] == key:
            out[-1][1].append(t)
        else:
            out.append((key, [t]))
    return out


def run_connect(case):
    goodwe, gp, ge = C.goodwe_mods()
    tr, tau, r, fam = case["transport"], case["timeout"], case["retries"], case["family"]
    world = World(max_steps=50_000)
    world.net.begin_script([], {"k": "drop"})
    dev = SimInverter(mode="file", fill="zero")
    world.net.add_device(C.HOST, C.port_of(tr), dev)
    state = {}

    async def main():
        state["rec"] = await C.do_call(world, "connect", lambda: goodwe.connect(
            C.HOST, C.port_of(tr), fam, 0, tau, r))
        if case.get("second"):
            # a SECOND object for the same endpoint, configured differently, in the same process
            state["tx_second"] = world.net.n_tx
            state["rec2"] = await C.do_call(world, "connect2", lambda: goodwe.connect(
                C.HOST, C.port_of(tr), fam, 0, case["second"][0], case["second"][1]))

    status, _ = C.run_world(world, main())
    violations = []
    txs = world.net.transmissions
    if status != "ok":
        violations.append(viol(f"C05:hang:connect:{fam}", f"connect() did not terminate: {status}"))
    rec = state.get("rec")
    if case.get("second") and state.get("rec2") is not None:
        t2, r2 = case["second"]
        g2 = txs[state["tx_second"]:]
        txs = txs[:state["tx_second"]]
        sub = []
        if g2:
            check_group(sub, g2, t2, r2, tr, state["rec2"]["t1"], state["rec2"]["outcome"], {"tx": r2 + 1, "outcome": "failed"},
                        "entry", f"second connect({fam}, timeout={t2}, retries={r2}) after connect(timeout={tau}, retries={r})")
        else:
            sub.append(viol("x:after=entry", "second connect() transmitted nothing"))
        for v in sub:
            v["key"] = "C05:entry:connect-second-object:" + v["key"].split(":")[1]
        violations.extend(sub)
    groups = _groups(txs, tr)
    if rec is not None:
        if len(groups) != 1:
            violations.append(viol(f"C05:entry:connect:{fam}:{tr}:probes",
                                   f"silent peer: {len(groups)} distinct probe commands, expected 1"))
        for key, g in groups:
            sub = []
            check_group(sub, g, tau, r, tr, rec["t1"] if g is groups[-1][1] else None,
                        rec["outcome"], {"tx": r + 1, "outcome": "failed"}, "entry", f"connect({fam}, timeout={tau}, retries={r})")
            for v in sub:
                v["key"] = v["key"].replace(f":{tr}:after=entry", f":connect:{fam}:{tr}")
            violations.extend(sub)
    sig = ("connect", fam, tr, tau, r, len(txs))
    return C.package(world, case, violations, sig, True, {"entry_connect": 1})


def run_discover(case):
    goodwe, gp, ge = C.goodwe_mods()
    tau, r, answering = case["timeout"], case["retries"], case["answering"]
    world = World(max_steps=100_000)
    dev = SimInverter(mode="file", fill="zero")
    # identification blocks: ASCII so that the discovery path can parse them
    if "AA55" in answering or answering == "ES":
        info = bytearray(b" " * 80)
        info[0:5] = b"12345"
        info[5:15] = b"GW5048D-ES" if answering == "ES" else b"GW10K-ET  "
        info[31:47] = b"95048ESU00000001" if answering == "ES" else b"9010KETU00000001"
        info[51:63] = b"360.1.2.3   "
        dev.blocks[0x0102] = bytes(info)
        dev.blocks[0x0106] = bytes(150)
        dev.blocks[0x0109] = bytes(90)
    world.net.add_device(C.HOST, C.UDP_PORT, dev)

    def responder(rec):
        pass

    # which requests get answered: by framing/comm address of the request
    def fault_for(data):
        if answering == "none":
            return {"k": "drop"}
        is_aa55 = data[:2] == b"\xaa\x55"
        if is_aa55:
            return {"k": "ok"} if ("AA55" in answering or answering == "ES") else {"k": "drop"}
        if data[0] == 0xF7:
            return {"k": "ok"} if "ET" in answering else {"k": "drop"}
        if data[0] == 0x7F:
            return {"k": "ok"} if answering == "DT" else {"k": "drop"}
        return {"k": "drop"}

    net = world.net
    orig = net.fault_at
    pending = {}

    def fault_at(i):
        return pending.get(i, {"k": "drop"})

    net.fault_at = fault_at
    # decide the fault when the transmission happens: wrap client_send
    orig_send = net.client_send

    def client_send(trp, data):
        pending[net.n_tx] = fault_for(data)
        return orig_send(trp, data)

    net.client_send = client_send
    state = {}

    async def main():
        state["rec"] = await C.do_call(world, "discover", lambda: goodwe.discover(C.HOST, C.UDP_PORT, tau, r))

    status, _ = C.run_world(world, main())
    violations = []
    txs = net.transmissions
    if status != "ok":
        violations.append(viol("C05:hang:discover", f"discover() did not terminate: {status}"))
    rec = state.get("rec")
    if rec is not None:
        for key, g in _groups(txs, "udp"):
            answered = any(t["fault"] == "ok" for t in g)
            n = len(g)
            times = [t["t"] for t in g]
            want = [times[0] + i * tau for i in range(n)]
            what = f"discover(timeout={tau}, retries={r}) probe {key[:6].hex()}"
            if answered:
                continue
            if n != r + 1:
                violations.append(viol("C05:entry:discover:budget", f"{what}: {n} transmissions, expected {r + 1}"))
            elif times != want:
                violations.append(viol("C05:entry:discover:spacing", f"{what}: transmissions at {times}, expected {want}"))
        if answering == "none" and rec["outcome"] == "result":
            violations.append(viol("C05:entry:discover:outcome", "discover() succeeded against a silent peer"))
    sig = ("discover", tau, r, answering, len(txs), rec["outcome"] if rec else status)
    return C.package(world, case, violations, sig, True, {"entry_discover": 1,
                                                           "discover_success": 1 if rec and rec["outcome"] == "result" else 0})


def run_search(case):
    goodwe, gp, ge = C.goodwe_mods()
    at = case["answer_at"]
    world = World(max_steps=50_000)

    class Beacon:
        def note_lost(self, *a):
            pass

        def answer(self, frame, transport, process=True, tx_index=0):
            return b"192.168.1.14,289C6E05XXXX,Solar-WiFi222W0782"

    world.net.add_device("255.255.255.255", 48899, Beacon())
    if at is None:
        world.net.begin_script([], {"k": "drop"})
    else:
        world.net.begin_script([{"k": "ok", "d": at}], {"k": "drop"})
    state = {}

    async def main():
        state["rec"] = await C.do_call(world, "search", lambda: goodwe.search_inverters())

    status, _ = C.run_world(world, main())
    violations = []
    txs = world.net.transmissions
    rec = state.get("rec")
    if status != "ok":
        violations.append(viol("C05:hang:search", f"search_inverters() did not terminate: {status}"))
    if rec is not None:
        if len(txs) != 1:
            violations.append(viol("C05:entry:search:budget", f"search_inverters(): {len(txs)} transmissions, expected 1"))
        elif at is None:
            if rec["outcome"] == "result":
                violations.append(viol("C05:entry:search:outcome", "search_inverters() returned without an answer"))
            elif rec["t1"] != txs[0]["t"] + 1.0:
                violations.append(viol("C05:entry:search:timeout",
                                       f"search_inverters(): failure at {rec['t1']}, expected {txs[0]['t'] + 1.0}"))
        else:
            if rec["outcome"] != "result" or rec.get("value") != b"192.168.1.14,289C6E05XXXX,Solar-WiFi222W0782":
                violations.append(viol("C05:entry:search:answer",
                                       f"answer delivered after {at}s (< 1 s) was not returned: {rec['outcome']}"))
    sig = ("search", at, len(txs), rec["outcome"] if rec else status)
    return C.package(world, case, violations, sig, True, {"entry_search": 1})


def evidence_extra(tier):
    return {"systematic_cases": len(_space(tier)), "seeded_cases": N_RANDOM[tier],
            "systematic_part": "all outcome sequences of length <= %d before a probe x transports x keep-alive x 3 settings; entry points" % SWEEP_LEN[tier]}
