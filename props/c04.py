"""C04 - every request terminates after at most retries+1 transmissions (DESIGN 6/C04)."""
from __future__ import annotations

import asyncio
import itertools

from sim.net import World, DEFAULT_LATENCY
from sim.device import SimInverter
from . import common as C
from .common import EPS, viol

ID = "C04"
LEVEL = "fault_enumeration"
RULE = ("Each run = one request on a fresh protocol/inverter object (optionally after 0-2 successful requests) under "
        "a fault script that assigns one symbol of the 13-symbol alphabet {drop, now, in_time, late, garbage, short, "
        "badsum, exc, frag, lonefrag, dup, peer_close, senderr} (with timing variants just-before/at/just-after the "
        "timeout) to each transmission and a connect outcome {ok, refused, unreach, hang} to each TCP connect.  "
        "The seeded part additionally uses two compound symbols (garbage directly followed by another delivery for the "
        "same transmission; a prompt answer followed by a stray piece later).  Systematic part: ALL scripts up to the tier's depth x {udp,tcp} x keep-alive x 3 (timeout,retries) settings "
        "x 4 TCP connect patterns; then seeded random scripts up to length 8.  A run is non-trivial when at least "
        "one fault fired; distinct = distinct abstract trace (transport, keep-alive, retries, per-transmission "
        "(fault kind, delay bucket <tau/=tau/>tau), connect outcomes, outcome, number of transmissions).")
ASSUMPTIONS = [
    "fake transports reproduce CPython 3.12 selector transport semantics (DESIGN 2.2)",
    "virtual time: all delays are dyadic rationals so that 'exactly one timeout apart' is testable with ==",
    "peer-closes on UDP is modelled as an ICMP port-unreachable reported through error_received()",
]

SYMBOLS = ["drop", "now", "in_time", "late", "garbage", "short", "badsum", "exc", "frag", "lonefrag", "dup",
           "peer_close", "senderr"]
SETTINGS = [(0.5, 0), (1.0, 2), (0.25, 3)]
CONNECT_PATTERNS = ["ok", "refused_first", "hang_first", "unreach_first"]
DEPTH = {"quick": 2, "thorough": 3}
N_RANDOM = {"quick": 30_000, "thorough": 1_000_000}


def _scripts(depth):
    out = []
    for n in range(1, depth + 1):
        out.extend(itertools.product(range(len(SYMBOLS)), repeat=n))
    return out


_SCRIPTS = {}


def _sweep_space(tier):
    if tier not in _SCRIPTS:
        scripts = _scripts(DEPTH[tier])
        combos = []
        for tr in ("udp", "tcp"):
            for ka in (False, True):
                for si in range(len(SETTINGS)):
                    pats = CONNECT_PATTERNS if tr == "tcp" else ["ok"]
                    for cp in pats:
                        combos.append((tr, ka, si, cp))
        _SCRIPTS[tier] = (scripts, combos)
    return _SCRIPTS[tier]


def n_sweep(tier):
    scripts, combos = _sweep_space(tier)
    return len(scripts) * len(combos)


BIG_RETRIES = [(tr, ka, r) for tr in ("udp", "tcp") for ka in (False, True) for r in (1200, 3000)]
# ... and a TCP peer that refuses / is unreachable for >1000 connection attempts of one request and then accepts
BIG_CONNECT = [(ka, r, n, k) for ka in (False, True) for (r, n) in ((1500, 1099), (3000, 2500), (1200, 1201))
               for k in ("refused", "unreach")]


# the same object used by OVERLAPPING requests in one event loop and then again in a later one (a second asyncio.run)
TWO_LOOPS = [(tr, ka, r, f2) for tr in ("udp", "tcp") for ka in (False, True) for r in (0, 2)
             for f2 in ("ok", "drop_first", "drop_all")]


def n_cases(tier):
    return n_sweep(tier) + N_RANDOM[tier] + len(BIG_RETRIES) + len(BIG_CONNECT) + len(TWO_LOOPS)


BATCH = 16


def warm(tier):
    _sweep_space(tier)


def exhaustive(tier):
    return False


def symbol_fault(sym, transport, tau, rnd):
    """Instantiate one alphabet symbol as a concrete fault dict (timing variant drawn from rnd)."""
    small = DEFAULT_LATENCY
    if sym == "drop":
        return {"k": "drop"}
    if sym == "now":
        return {"k": "ok", "d": small}
    if sym == "in_time":
        return {"k": "ok", "d": rnd.choice([tau / 2, tau - EPS, tau - 2 * EPS])}
    if sym == "late":
        return {"k": "ok", "d": rnd.choice([tau, tau + EPS, tau * 1.5, tau * 2.5])}
    if sym == "garbage":
        return {"k": "garbage", "n": rnd.choice([9, 20, 64]), "seed": rnd.randrange(1 << 16),
                "d": rnd.choice([small, tau / 2, tau - EPS])}
    if sym == "short":
        return {"k": "garbage", "n": rnd.choice([1, 3, 4]), "seed": rnd.randrange(1 << 16),
                "d": rnd.choice([small, tau / 2])}
    if sym == "badsum":
        if transport == "tcp":
            return {"k": "mut", "ops": [["add", 8, rnd.choice([1, 2, 255])]], "d": small}  # wrong byte count
        return {"k": "mut", "ops": [["add", -1, rnd.choice([1, 255])]], "d": small}
    if sym == "exc":
        f = {"k": "exc", "code": rnd.choice([1, 2, 3, 4, 6, 11, 99]), "d": rnd.choice([small, tau / 2])}
        if rnd.random() < 0.3:   # the exception frame arrives twice (duplicate / retransmitted segment)
            f["again"] = f["d"] + rnd.choice([small, tau / 4, tau])
        return f
    if sym == "frag":
        return {"k": "frag", "s": rnd.choice([5, 7, 9, 10, 12, 4, 8]), "d1": small,
                "d2": rnd.choice([small, tau / 2, tau - EPS, tau, tau + tau / 2])}
    if sym == "lonefrag":
        # incl. pieces shorter than the frame header (cut right after the function code / inside the envelope)
        return {"k": "lonefrag", "s": rnd.choice([5, 7, 9, 10, 12, 4, 3, 8]), "d1": rnd.choice([small, tau / 2, tau - EPS])}
    if sym == "dup":
        return {"k": "dup", "d1": small, "d2": rnd.choice([small, 2 * small, tau / 2, tau + EPS])}
    if sym == "peer_close":
        d = rnd.choice([small, tau / 2, tau - EPS])
        if transport == "tcp":
            base = rnd.choice(["drop", "ok_before", "ok_after"])
            ev = rnd.choice(["fin", "rst"])
            if base == "drop":
                return {"k": "drop", "then": [{"ev": ev, "d": d}]}
            if base == "ok_before":  # answer first, then close
                return {"k": "ok", "d": small, "then": [{"ev": ev, "d": d + small}]}
            return {"k": "ok", "d": d + small, "then": [{"ev": ev, "d": d}]}  # close before the answer
        return {"k": "drop", "then": [{"ev": "icmp", "d": d, "errno": 111}]}
    if sym == "senderr":
        return {"k": "senderr", "errno": rnd.choice([111, 101, 113, 104, 1])}
    if sym == "garbage_then":
        # two deliveries for one transmission: garbage right before an answer / exception frame / more garbage
        d1 = rnd.choice([small, tau / 2])
        nxt = rnd.choice([{"what": "ans"}, {"what": "exc", "code": rnd.choice([2, 4, 6])},
                          {"what": "garbage", "n": 12, "seed": rnd.randrange(1 << 16)}, {"what": "prefix", "s": 7}])
        nxt["d"] = d1 + rnd.choice([0.0, small, tau / 4])
        return {"k": "multi", "parts": [{"what": "garbage", "n": rnd.choice([3, 12]), "seed": rnd.randrange(1 << 16), "d": d1}, nxt]}
    if sym == "stray_after":
        # a prompt answer, and a stray piece (first fragment / whole answer / exception frame) later on
        what = rnd.choice([{"what": "prefix", "s": rnd.choice([5, 7, 9, 10])}, {"what": "ans"},
                           {"what": "exc", "code": 4}, {"what": "garbage", "n": 9, "seed": 5}])
        ev = dict(what, ev="data", d=rnd.choice([2 * small, tau / 2, tau, 3 * tau]))
        return {"k": "ok", "d": small, "then": [ev]}
    if sym == "frag_many":
        # the answer comes in THREE pieces: a first fragment, a piece shorter than what is missing, and then the rest
        # - or nothing more
        s1 = rnd.choice([5, 7, 9, 12])
        s2 = s1 + rnd.choice([1, 2, 6])
        d1 = rnd.choice([small, tau / 4])
        parts = [{"what": "prefix", "s": s1, "d": d1}, {"what": "slice", "a": s1, "b": s2, "d": d1 + rnd.choice([small, tau / 4])}]
        if rnd.random() < 0.5:
            parts.append({"what": "suffix", "s": s2, "d": d1 + tau / 2})
        return {"k": "multi", "parts": parts}
    raise ValueError(sym)


EXTRA_SYMBOLS = ["garbage_then", "stray_after", "frag_many"]


def connect_outcome(kind, rnd):
    if kind == "ok":
        return {"k": "ok", "d": 0.0}
    if kind == "ok_slow":
        return {"k": "ok", "d": rnd.choice([0.125, 1.0, 4.5, 5.0 - EPS])}
    if kind == "ok_sockopt":
        # connected, but the platform refuses the keep-alive socket options (ENOPROTOOPT / EINVAL)
        return {"k": "ok", "d": 0.0, "sockopt": rnd.choice([92, 22])}
    if kind == "ok_late":
        # the connection is established only after the library has given the attempt up (it waits 5 s)
        return {"k": "ok", "d": rnd.choice([5.0 + EPS, 5.5, 7.0, 12.0])}
    if kind == "refused":
        return {"k": "refused", "d": rnd.choice([0.0, 0.125])}
    if kind == "unreach":
        return {"k": "unreach", "d": rnd.choice([0.0, 3.0]), "errno": rnd.choice([113, 101])}
    if kind == "hang":
        return {"k": "hang"}
    raise ValueError(kind)


def make_case(tier, seed, index):
    rnd = C.rng_for(seed, ID, index)
    ns = n_sweep(tier)
    if index >= ns + N_RANDOM[tier]:
        # a very large (legal) retry budget against a silent peer / a peer that only sends garbage
        bi = index - ns - N_RANDOM[tier]
        if bi >= len(BIG_RETRIES) + len(BIG_CONNECT):
            tr, ka, r, f2 = TWO_LOOPS[bi - len(BIG_RETRIES) - len(BIG_CONNECT)]
            return {"kind": "twoloops", "transport": tr, "keep_alive": ka, "timeout": 0.5, "retries": r, "second": f2,
                    "pre": 0, "level": "execute"}
        if bi >= len(BIG_RETRIES):
            ka, r, n, k = BIG_CONNECT[bi - len(BIG_RETRIES)]
            cf = {"k": k, "d": 0.0}
            if k == "unreach":
                cf["errno"] = 113
            return {"kind": "bigretries", "transport": "tcp", "keep_alive": ka, "timeout": 0.25, "retries": r,
                    "pre": 0, "level": "execute" if bi % 2 else "inverter",
                    "cmd": {"op": "read", "reg": 35100, "count": 2 if bi % 2 else 1}, "script": [],
                    "faults": [], "connects": [cf] * n, "default": {"k": "ok"}}
        tr, ka, r = BIG_RETRIES[bi]
        garbage = (index % 2 == 1)
        return {"kind": "bigretries", "transport": tr, "keep_alive": ka, "timeout": 0.25, "retries": r, "pre": 0,
                "level": "execute", "cmd": {"op": "read", "reg": 35100, "count": 2}, "script": [], "faults": [],
                "connects": [], "default": {"k": "garbage", "n": 12, "seed": 5, "d": 0.125} if garbage else {"k": "drop"}}
    scripts, combos = _sweep_space(tier)
    if index < ns:
        script = [SYMBOLS[i] for i in scripts[index // len(combos)]]
        tr, ka, si, cp = combos[index % len(combos)]
        tau, r = SETTINGS[si]
        pre = 0 if ((index // len(combos)) % 3) else rnd.choice([0, 1, 2])
        conn_kinds = {"ok": [], "refused_first": ["refused"], "hang_first": ["hang"],
                      "unreach_first": ["unreach"]}[cp]
        cmd = {"op": "read", "reg": 35100, "count": 4}
        level = "execute" if index % 2 == 0 else "inverter"
        kind = "sweep"
    else:
        tr = rnd.choice(["udp", "tcp"])
        ka = rnd.random() < 0.5
        tau = rnd.choice([0.25, 0.5, 1.0, 2.0])
        r = rnd.choice([0, 1, 2, 3])
        # swarm: enabled subset of symbols, density
        enabled = [s for s in SYMBOLS + EXTRA_SYMBOLS if rnd.random() < 0.5] or ["drop"]
        n = rnd.randint(1, 8)
        density = rnd.choice([0.3, 0.6, 1.0])
        script = [rnd.choice(enabled) if rnd.random() < density else "now" for _ in range(n)]
        pre = rnd.choice([0, 0, 1, 2])
        conn_kinds = []
        if tr == "tcp":
            ck = [k for k in ("ok", "ok_slow", "refused", "unreach", "hang", "ok_late") if rnd.random() < 0.5] or ["ok"]
            conn_kinds = [rnd.choice(ck) if rnd.random() < 0.4 else "ok" for _ in range(rnd.randint(0, 6))]
        op = rnd.choice(["read", "read", "write", "wmulti"])
        if op == "read":
            cmd = {"op": "read", "reg": rnd.randrange(0, 65536 - 125), "count": rnd.randint(1, 125)}
        elif op == "write":
            cmd = {"op": "write", "reg": rnd.randrange(0, 65536), "value": rnd.randrange(-32768, 32768)}
        else:
            cmd = {"op": "wmulti", "reg": rnd.randrange(0, 65000), "hex": bytes(
                rnd.getrandbits(8) for _ in range(2 * rnd.randint(1, 12))).hex()}
        level = rnd.choice(["execute", "inverter"]) if cmd["op"] == "read" else "execute"
        kind = "random"
    if level == "inverter":
        cmd = {"op": "read", "reg": cmd["reg"], "count": 1}
    faults = [{"k": "ok"} for _ in range(pre)] + [symbol_fault(s, tr, tau, rnd) for s in script]
    # connects: the pre-requests connect fine; then the pattern for the request under test
    connects = []
    if tr == "tcp":
        n_pre_conn = pre if not ka else min(pre, 1)
        connects = [{"k": "ok", "d": 0.0} for _ in range(n_pre_conn)] + [connect_outcome(k, rnd) for k in conn_kinds]
    case = {"kind": kind, "transport": tr, "keep_alive": ka, "timeout": tau, "retries": r, "pre": pre,
            "level": level, "cmd": cmd, "script": script, "faults": faults, "connects": connects}
    if kind == "random" and rnd.random() < 0.2:
        case["by_name"] = True   # the inverter is addressed by host name (answers come from its numeric address)
    if kind == "random" and rnd.random() < 0.3:
        # a TROUBLED request first (its own fault script; its outcome is not judged here): whatever happened to it,
        # the request under test still has to terminate within its own budget and timing
        tf = [symbol_fault(rnd.choice(enabled), tr, tau, rnd) for _ in range(rnd.randint(1, 4))]
        tc = []
        if tr == "tcp":
            tc = [connect_outcome(rnd.choice(["ok", "ok", "refused", "unreach"]), rnd) for _ in range(rnd.randint(0, 5))]
        case["trouble"] = {"faults": tf, "default": rnd.choice([{"k": "drop"}, {"k": "ok"}]), "connects": tc}
    return case


SHRINK_FROZEN = ("script",)


def simplify(case):
    out = []
    if case["kind"] == "twoloops":
        return out
    if case.get("by_name"):
        c = dict(case)
        c.pop("by_name")
        out.append(c)
    if case.get("trouble") is not None:
        c = dict(case)
        c.pop("trouble")
        out.append(c)
    if case["pre"] > 0:
        c = dict(case)
        c["pre"] = 0
        c["faults"] = case["faults"][case["pre"]:]
        if case["transport"] == "tcp":
            n_pre_conn = case["pre"] if not case["keep_alive"] else min(case["pre"], 1)
            c["connects"] = case["connects"][n_pre_conn:]
        out.append(c)
    if case["cmd"].get("count", 1) > 2 and case["cmd"]["op"] == "read":
        c = dict(case)
        c["cmd"] = dict(case["cmd"], count=2)
        out.append(c)
    if case["level"] == "inverter":
        c = dict(case)
        c["level"] = "execute"
        out.append(c)
    return out


def run_twoloops(case):
    tr, tau, r, ka = case["transport"], case["timeout"], case["retries"], case["keep_alive"]
    world = World(max_steps=20_000)
    dev = SimInverter(mode="stamp")
    world.net.add_device(C.HOST, C.port_of(tr), dev)
    proto = C.make_protocol(tr, tau, r, ka)
    recs = []

    async def pair(base, faults, default):
        world.net.begin_script(faults, default)
        out = await asyncio.gather(*[C.do_execute(world, proto, {"op": "read", "reg": base + i, "count": 2}, f"r{base + i}")
                                     for i in range(3)])
        recs.extend(out)

    violations = []
    status, _ = C.run_world(world, pair(100, [], {"k": "ok"}))
    if status == "ok":
        f2 = {"ok": ([], {"k": "ok"}), "drop_first": ([{"k": "drop"}], {"k": "ok"}), "drop_all": ([], {"k": "drop"})}[case["second"]]
        status, _ = C.run_world(world, pair(200, f2[0], f2[1]))
    if status != "ok":
        violations.append(viol(f"C04:hang:{tr}:second-loop", f"overlapping requests in two successive event loops: {status}"))
    for rec in recs:
        if rec["outcome"] not in ("result", "rejected", "failed", "maxretries"):
            violations.append(viol(f"C04:outcome:{tr}:{rec['outcome']}",
                                   f"overlapping requests in two successive event loops: {rec['label']} ended with "
                                   f"{rec['outcome']}: {rec.get('exc')!r}"))
            break
        if rec["t1"] - rec["t0"] > 3 * (r + 1) * tau + 1e-9:
            violations.append(viol(f"C04:late:{tr}", f"{rec['label']} took {rec['t1'] - rec['t0']} (3 queued requests, "
                                   f"retries={r}, timeout={tau})"))
            break
    sig = ("twoloops", tr, ka, r, case["second"])
    return C.package(world, case, violations, sig, True, {"two_loop_cases": 1})


def run_case(case):
    if case["kind"] == "twoloops":
        return run_twoloops(case)
    goodwe, gp, ge = C.goodwe_mods()
    tr = case["transport"]
    tau = case["timeout"]
    r = case["retries"]
    world = World(faults=case["faults"], connects=case["connects"],
                  max_steps=400_000 if case["kind"] == "bigretries" else 20_000)
    if case.get("default"):
        world.net.default_fault = case["default"]
    dev = SimInverter(mode="stamp")
    world.net.add_device(C.HOST, C.port_of(tr), dev)
    world.net.add_host(C.HOSTNAME, C.HOST)
    host = C.HOSTNAME if case.get("by_name") else C.HOST
    state = {}

    if case["level"] == "inverter":
        inv = goodwe.ET(host, C.port_of(tr), 0xF7, tau, r)
        inv.set_keep_alive(case["keep_alive"])

        async def one(label):
            return await C.do_call(world, label, lambda: inv.read_sensor("modbus-%d" % case["cmd"]["reg"]))
    else:
        proto = C.make_protocol(tr, tau, r, case["keep_alive"], host=host)

        async def one(label):
            return await C.do_execute(world, proto, case["cmd"], label)

    async def main():
        tb = case.get("trouble")
        if tb is not None:
            world.net.begin_script(tb["faults"], tb["default"], tb["connects"])
            state["trouble"] = await one("trouble")
            # let everything still in flight for it arrive before the requests under test start
            while world.net.last_event_time() is not None:
                await asyncio.sleep(max(EPS, world.net.last_event_time() - world.clock.now) + EPS)
            await asyncio.sleep(EPS)
            world.net.begin_script(case["faults"], None, case["connects"])
        for i in range(case["pre"]):
            state.setdefault("pre", []).append(await one("pre%d" % i))
        state["probe_tx0"] = world.net.n_tx
        state["probe_conn0"] = world.net.n_conn
        state["probe_t0"] = world.clock.now
        state["rec"] = await one("probe")

    status, _ = C.run_world(world, main())
    violations = []
    net = world.net
    tx0 = state.get("probe_tx0", 0)
    foff = net.fault_offset   # transmissions made by a troubled first request do not consume the script
    txs = [t for t in net.transmissions if t["i"] >= tx0]
    ntx = len(txs)
    fired = [t["fault"] for t in txs]
    first_fault = next((f for f in fired if f != "ok"), "none")
    silent = False
    rec = state.get("rec")
    outcome = rec["outcome"] if rec else status

    pre_ok = all(p["outcome"] == "result" for p in state.get("pre", []))
    if not pre_ok:
        # a fault-free preceding request failed: not this property's subject, but never expected
        violations.append(viol(f"C04:pre-request-failed:{tr}", f"fault-free preceding request failed: "
                               f"{[p['outcome'] for p in state.get('pre', [])]}"))
    if status != "ok":
        violations.append(viol(f"C04:hang:{tr}:{first_fault}",
                               f"request did not terminate ({status}) after {ntx} transmissions at t={world.clock.now}"))
    elif rec is not None:
        # (2) number of transmissions
        if ntx > r + 1:
            violations.append(viol(f"C04:tx>r+1:{tr}",
                                   f"{ntx} transmissions with retries={r} (faults {fired})"))
        # (5) outcome
        allowed = {"result", "rejected", "failed", "maxretries"}
        if outcome not in allowed:
            violations.append(viol(f"C04:outcome:{tr}:{outcome}",
                                   f"request ended with {outcome}: {rec.get('exc')!r}"))
        # (3) end bound
        t_end = rec["t1"]
        t0 = state["probe_t0"]
        bound = t0 + tau
        last = ("start", t0)
        for t in txs:
            if t["t"] + tau > bound:
                bound, last = t["t"] + tau, ("tx", t["t"])
        for d in net.deliveries:
            if d["status"] == "delivered" and d["tx"] >= tx0 and d.get("t_run", d["t"]) <= t_end:
                if d["t_run"] + tau > bound:
                    bound, last = d["t_run"] + tau, ("delivery", d["t_run"])
        for c in net.connect_log:
            if c["j"] >= state["probe_conn0"] and c["kind"] == "tcp" and c["t"] <= t_end:
                if c["outcome"] == "hang" or c["t_done"] is None:
                    cand = c["t"] + 5.0 + tau   # the 5 s connect bound, then at most one timeout
                else:
                    cand = c["t_done"] + tau
                if cand > bound:
                    bound, last = cand, ("connect", c["t"])
        if t_end > bound:
            violations.append(viol(f"C04:late-end:{tr}",
                                   f"request ended at {t_end}, later than one timeout after its last event {last} "
                                   f"(bound {bound})"))
        # (6) no premature retransmission: when NOTHING reached the client between two consecutive transmissions
        # (no delivery, no connection event, no send error) the second one comes exactly one timeout after the first
        for a, b in zip(txs, txs[1:]):
            if a["fault"] == "senderr" or b["t"] - a["t"] == tau:
                continue
            quiet = not any(d["status"] in ("delivered", "coalesced") and a["t"] <= d.get("t_run", d["t"]) <= b["t"]
                            for d in net.deliveries)
            quiet = quiet and not any(c["j"] >= state["probe_conn0"] and c["kind"] == "tcp" and a["t"] < (c["t_done"] or 0) <= b["t"]
                                      and (c["t_done"] or 0) != c["t"] for c in net.connect_log)
            quiet = quiet and not any(c["j"] >= state["probe_conn0"] and c["outcome"] != "ok" and a["t"] <= c["t"] <= b["t"]
                                      for c in net.connect_log)
            if quiet:
                violations.append(viol(f"C04:retry-spacing:{tr}",
                                       f"transmissions #{a['i']} at {a['t']} and #{b['i']} at {b['t']} are "
                                       f"{b['t'] - a['t']} apart with nothing received in between (timeout {tau}, "
                                       f"faults {fired})"))
                break
        # (4) silent schedule
        silent = all(f == "drop" for f in fired) and ntx > 0 and all(
            "then" not in case["faults"][t["i"] - foff] for t in txs if 0 <= t["i"] - foff < len(case["faults"])) and all(
            c["outcome"] == "ok" and c["t_done"] == c["t"] for c in net.connect_log if c["j"] >= state["probe_conn0"])
        if silent:
            exp_times = [t0 + i * tau for i in range(r + 1)]
            got_times = [t["t"] for t in txs]
            if ntx != r + 1:
                violations.append(viol(f"C04:silent:{tr}:count", f"silent peer: {ntx} transmissions, expected {r + 1}"))
            elif got_times != exp_times:
                violations.append(viol(f"C04:silent:{tr}:spacing",
                                       f"silent peer: transmissions at {got_times}, expected {exp_times}"))
            if len({C.strip_tcp_tx(t["data"], tr) for t in txs}) > 1:
                violations.append(viol(f"C04:silent:{tr}:bytes", "retransmissions are not identical"))
            if outcome not in ("failed", "maxretries"):
                violations.append(viol(f"C04:silent:{tr}:outcome", f"silent peer but outcome {outcome}"))
            elif ntx == r + 1 and t_end != t0 + (r + 1) * tau:
                violations.append(viol(f"C04:silent:{tr}:end",
                                       f"silent peer: failure reported at {t_end}, expected {t0 + (r + 1) * tau}"))
    if world.loop_exceptions:
        pass  # C09's subject; recorded in probes only
    sig = (tr, case["keep_alive"], r, case["level"],
           tuple((t["fault"], C.tbucket(case["faults"][t["i"] - foff].get("d", case["faults"][t["i"] - foff].get("d2"))
                                        if 0 <= t["i"] - foff < len(case["faults"]) else None, tau)) for t in txs),
           tuple(c["outcome"] for c in net.connect_log), outcome, ntx)
    nontrivial = any(f != "ok" for f in fired) or any(c["outcome"] != "ok" for c in net.connect_log)
    probes = {
        "outcome:" + outcome: 1,
        "loop_exception_seen": 1 if world.loop_exceptions else 0,
        "retries_exhausted": 1 if outcome in ("failed", "maxretries") else 0,
        "silent_schedule_checked": 1 if silent else 0,
        "fragment_composed": 1 if any(d["status"] == "delivered" and d["kind"] == "data" for d in net.deliveries) and
        any(t["fault"] == "frag" for t in txs) and outcome == "result" else 0,
        "connect_hang": sum(1 for c in net.connect_log if c["outcome"] == "hang"),
    }
    return C.package(world, case, violations, sig, nontrivial, probes)

LEVEL_TEXT = ("Fault enumeration: every fault script up to depth 2 (quick) / 3 (thorough) over the 13-symbol alphabet "
              "of the property's quantifier, crossed with transport, keep-alive, (timeout, retries) and TCP connect "
              "outcomes, is executed against the real protocol code on the simulated loop; deeper scripts are "
              "sampled with a seeded PRNG.  Oracles: termination (deadlock detection by the fake selector), "
              "transmissions <= retries+1, end <= last event + timeout, exact silent schedule.  Sampling beyond "
              "the enumerated depth is evidence, not proof.")
LEVEL_NOTE = ("Trusted: the fake transports mirror CPython 3.12.1 selector transports; the ready queue is not "
              "permuted (asyncio guarantees FIFO); timing near-ties are generated explicitly at +/-2^-20 s.")
TECHNIQUE = "deterministic simulation (virtual-time asyncio loop) with enumerated + seeded fault scripts"


def evidence_extra(tier):
    scripts, combos = _sweep_space(tier)
    return {"systematic_cases": n_sweep(tier), "seeded_cases": N_RANDOM[tier],
            "systematic_part": "all %d fault scripts of length <= %d over the 13-symbol alphabet x %d configurations" % (
                len(scripts), DEPTH[tier], len(combos))}
