"""C10 - at most one transport is open per inverter and none is leaked (DESIGN 6/C10)."""
from __future__ import annotations

import asyncio

from sim.net import World, DEFAULT_LATENCY
from sim.device import SimInverter
from . import common as C
from .common import EPS, viol
from .c04 import symbol_fault, connect_outcome, SYMBOLS

ID = "C10"
LEVEL = "exploration"
BATCH = 16
RULE = ("Histories of up to 4 requests on one protocol object with per-transmission faults from C04's alphabet and "
        "connect faults, interleaved with close() calls, idle periods and event-loop changes (successive "
        "asyncio.run; in a fifth of the seeded cases two long-lived loops used alternately, the one that is left "
        "staying open - every request of such a history must work), x {udp,tcp} x keep-alive; every history ends with a fault-free request.  Monitors in the net: "
        "set of open transports per owner at every open event; at every return to the caller; transport identity of "
        "consecutive clean successes.  Non-trivial: a fault fired or a close()/loop change happened; distinct: "
        "(config, step kinds with fault kinds, outcomes, open/close counts).")
ASSUMPTIONS = [
    "a transport counts as closed from the moment close()/abort is called on it (the OS socket goes one loop "
    "iteration later, or at GC when its loop is already closed - not observable, not demanded)",
    "fake transports reproduce CPython 3.12 selector transport semantics",
]
LEVEL_TEXT = ("Seeded exploration of request/close/loop-change histories with fault injection; resource accounting is "
              "done by the simulated network (every socket is created by it), so a leak or a second socket is "
              "observed directly rather than inferred.")
LEVEL_NOTE = "Trusted: transport model."
TECHNIQUE = "deterministic simulation with open/close accounting in the fake network over fault-injected histories"

N_RANDOM = {"quick": 30_000, "thorough": 3_000_000}


FIN_RACE = [(r, gap, k) for r in (0, 1, 3) for gap in (0.0, EPS, DEFAULT_LATENCY) for k in (1, 2, 3)]


# keep-alive off and OVERLAPPING callers: a transport must not outlive the request it was opened for, also when the
# next request is already queued (every request then has a transport of its own)
OVERLAP = [(tr, r, n, f, gap) for tr in ("udp", "tcp") for r in (0, 2) for n in (2, 3)
           for f in ("ok", "drop_first", "second_silent") for gap in (0.0, EPS, DEFAULT_LATENCY / 2)]
# keep-alive switched off while a transport from the keep-alive period is still open, then close()
TOGGLE_CLOSE = [(tr, mid) for tr in ("udp", "tcp") for mid in ("none", "sleep", "newloop")]


# objects obtained through the package entry points: whatever connect()/discover() do internally (probing objects,
# temporary settings), nothing stays open behind the returned inverter and no two transports are open at once
ENTRY = [(which, fam, tr) for which in ("connect", "discover") for fam in ("ET", "DT", "ES") for tr in ("udp", "tcp")
         if not (fam == "ES" and tr == "tcp")]


def n_cases(tier):
    return N_RANDOM[tier] + len(FIN_RACE) + len(OVERLAP) + len(TOGGLE_CLOSE) + len(ENTRY)


def make_case(tier, seed, index):
    if index >= N_RANDOM[tier] + len(FIN_RACE) + len(OVERLAP) + len(TOGGLE_CLOSE):
        which, fam, tr = ENTRY[index - N_RANDOM[tier] - len(FIN_RACE) - len(OVERLAP) - len(TOGGLE_CLOSE)]
        return {"kind": "entry", "which": which, "family": fam, "transport": tr, "keep_alive": False, "timeout": 0.5,
                "retries": 1, "steps": []}
    if index >= N_RANDOM[tier] + len(FIN_RACE) + len(OVERLAP):
        tr, mid = TOGGLE_CLOSE[index - N_RANDOM[tier] - len(FIN_RACE) - len(OVERLAP)]
        steps = [{"op": "req", "faults": [], "connects": []}, {"op": "toggle"}]
        if mid == "sleep":
            steps.append({"op": "sleep", "d": 3.0})
        elif mid == "newloop":
            steps.append({"op": "newloop"})
        steps += [{"op": "close"}, {"op": "req", "faults": [], "connects": [], "final": True}]
        return {"transport": tr, "keep_alive": True, "timeout": 0.5, "retries": 1, "steps": steps}
    if index >= N_RANDOM[tier] + len(FIN_RACE):
        tr, r, n, f, gap = OVERLAP[index - N_RANDOM[tier] - len(FIN_RACE)]
        return {"kind": "overlap", "transport": tr, "keep_alive": False, "timeout": 0.5, "retries": r, "n": n, "faults": f,
                "gap": gap, "steps": []}
    if index >= N_RANDOM[tier]:
        # a peer that closes the kept-alive TCP connection right after every answer, and a client that issues its
        # next request without a pause: the connection is 'dropped' when the next request starts
        r, gap, k = FIN_RACE[index - N_RANDOM[tier]]
        steps = []
        for j in range(k):
            steps.append({"op": "req", "faults": [{"k": "ok", "d": DEFAULT_LATENCY, "then": [{"ev": "fin", "d": DEFAULT_LATENCY + gap}]}],
                          "connects": []})
        steps.append({"op": "req", "faults": [], "connects": [], "final": True, "nodrain": True})
        return {"transport": "tcp", "keep_alive": True, "timeout": 0.5, "retries": r, "steps": steps, "fin_race": True}
    rnd = C.rng_for(seed, ID, index)
    tr = rnd.choice(["udp", "tcp"])
    tau = rnd.choice([0.25, 0.5, 1.0])
    r = rnd.choice([0, 1, 2, 3])
    ka = rnd.random() < 0.6
    enabled = [s for s in SYMBOLS if rnd.random() < 0.5]
    steps = []
    if rnd.random() < 0.2:
        # two long-lived event loops used alternately (e.g. one per thread / a loop that is re-entered): the loop that
        # is left stays OPEN.  All requests are fault-free or lose transmissions within the budget; each one must work.
        for j in range(rnd.randint(2, 6)):
            if j and rnd.random() < 0.6:
                steps.append({"op": "newloop"})
            x = rnd.random()
            if x < 0.15:
                steps.append({"op": "close"})
            elif x < 0.3:
                steps.append({"op": "sleep", "d": rnd.choice([tau / 2, 3 * tau])})
            k = rnd.randint(1, r) if r and rnd.random() < 0.25 else 0
            steps.append({"op": "req", "faults": [{"k": "drop"}] * k, "connects": []})
        steps[-1]["final"] = True
        return {"transport": tr, "keep_alive": ka, "timeout": tau, "retries": r, "steps": steps, "loops": "alt"}
    nreq = rnd.randint(1, 4)
    for j in range(nreq):
        x = rnd.random()
        if x < 0.2:
            steps.append({"op": "close"})
        elif x < 0.35:
            steps.append({"op": "newloop"})
            if rnd.random() < 0.3:
                steps.append({"op": "close"})   # the first thing done from the new loop is close()
        elif x < 0.5:
            steps.append({"op": "sleep", "d": rnd.choice([tau / 2, tau, 3 * tau, 10.0])})
        elif x < 0.58:
            steps.append({"op": "toggle"})   # the application switches keep-alive on/off between requests
        faults = []
        if enabled and rnd.random() < 0.7:
            for _ in range(rnd.randint(1, 4)):
                faults.append(symbol_fault(rnd.choice(enabled), tr, tau, rnd) if rnd.random() < 0.7 else {"k": "ok"})
        connects = []
        if tr == "tcp" and rnd.random() < 0.3:
            connects = [connect_outcome(rnd.choice(["refused", "unreach", "hang", "ok_slow", "ok_late", "ok_sockopt", "ok_sockopt"]), rnd)
                        for _ in range(rnd.randint(1, 2))]
        elif tr == "udp" and rnd.random() < 0.1:
            connects = [{"k": "sockerr", "errno": 101}]
        steps.append({"op": "req", "faults": faults, "connects": connects})
    x = rnd.random()
    if x < 0.2:
        steps.append({"op": "close"})
    elif x < 0.35:
        steps.append({"op": "newloop"})
    elif x < 0.5:
        steps.append({"op": "sleep", "d": rnd.choice([tau / 2, tau, 3 * tau, 10.0])})
    steps.append({"op": "req", "faults": [], "connects": [], "final": True})
    y = rnd.random()
    if y < 0.3:
        steps.append({"op": "close"})
    elif y < 0.45:
        steps += [{"op": "newloop"}, {"op": "close"}]   # close() from a later asyncio.run
    return {"transport": tr, "keep_alive": ka, "timeout": tau, "retries": r, "steps": steps}


def simplify(case):
    out = []
    if case.get("kind") in ("overlap", "entry"):
        return out
    for i, s in enumerate(case["steps"]):
        if s["op"] == "sleep" and s["d"] > 0.25:
            c = dict(case)
            c["steps"] = [dict(x) for x in case["steps"]]
            c["steps"][i]["d"] = 0.25
            out.append(c)
    return out


def run_overlap(case):
    tr, tau, r, n = case["transport"], case["timeout"], case["retries"], case["n"]
    world = World(max_steps=100_000)
    dev = SimInverter(mode="stamp")
    world.net.add_device(C.HOST, C.port_of(tr), dev)
    proto = C.make_protocol(tr, tau, r, False)
    net = world.net
    recs = []
    faults = {"ok": [], "drop_first": [{"k": "drop"}], "second_silent": [{"k": "ok"}] + [{"k": "drop"}] * (r + 1)}[case["faults"]]

    async def one(i):
        if i:
            await asyncio.sleep(i * case["gap"])
        rec = await C.do_execute(world, proto, {"op": "read", "reg": 35100 + i, "count": 2}, "req%d" % i)
        rec["open_after"] = len(net.open_transports())
        recs.append(rec)

    async def main():
        net.begin_script(faults, {"k": "ok"})
        await asyncio.gather(*[one(i) for i in range(n)])
        await asyncio.sleep(2 * tau)

    status, _ = C.run_world(world, main())
    violations = []
    if status != "ok":
        violations.append(viol(f"C10:hang:{tr}", f"overlapping requests did not terminate: {status}"))
    # which transports carried which request (by the register in the frame)
    tids = {}
    for t in net.transmissions:
        d = t["data"]
        reg = ((d[8] << 8) | d[9]) if tr == "tcp" else ((d[2] << 8) | d[3])
        tids.setdefault(t["tid"], set()).add(reg)
    shared = {tid: regs for tid, regs in tids.items() if len(regs) > 1}
    if shared:
        tid, regs = sorted(shared.items())[0]
        violations.append(viol(f"C10:outlived-its-request:{tr}",
                               f"keep-alive off, {n} overlapping callers: transport #{tid} carried the requests for registers "
                               f"{sorted(regs)} - it stayed open after the request it was opened for had completed"))
    if len(net.open_transports()) != 0:
        violations.append(viol(f"C10:left-open:{tr}:overlap", f"{len(net.open_transports())} transport(s) open after all callers returned"))
    open_now = set()
    for e in world.events:
        if e[2] == "open":
            if open_now:
                violations.append(viol(f"C10:two-open:{tr}:noka", f"transport #{e[4]} opened at t={e[1]} while {sorted(open_now)} still open"))
                break
            open_now.add(e[4])
        elif e[2] == "close":
            open_now.discard(e[4])
    sig = ("overlap", tr, r, n, case["faults"], case["gap"])
    return C.package(world, case, violations, sig, True, {"overlap_cases": 1, "transports_opened": len(net.transports)})


def run_entry(case):
    goodwe, gp, ge = C.goodwe_mods()
    from . import devices
    fam, tr, which = case["family"], case["transport"], case["which"]
    world = World(max_steps=200_000)
    if fam == "ET":
        dev = devices.make_et(fill="zero", comm_addr=0xF7)
    elif fam == "DT":
        # over UDP it answers its own address only (other families' probes time out); over TCP it answers every unit id
        # and REFUSES the registers it does not have (the ET probe gets ILLEGAL DATA ADDRESS)
        dev = devices.make_dt(fill="zero", comm_addr=0x7F if tr == "udp" else None)
    else:
        dev = devices.make_es(runtime=bytes(142), settings=bytes(86), fill="zero")
    world.net.add_device(C.HOST, C.port_of(tr), dev)
    net = world.net
    state = {}

    async def main():
        if which == "connect":
            rec = await C.do_call(world, "connect", lambda: goodwe.connect(C.HOST, C.port_of(tr), fam, 0, 0.5, 1))
        else:
            rec = await C.do_call(world, "discover", lambda: goodwe.discover(C.HOST, C.port_of(tr), 0.5, 1))
        state["rec"] = rec
        state["open_after"] = len(net.open_transports())
        await asyncio.sleep(3.0)
        state["open_later"] = len(net.open_transports())
        if rec["outcome"] == "result" and rec["value"] is not None:
            r2 = await C.do_call(world, "poll", rec["value"].read_runtime_data)
            state["open_after_poll"] = len(net.open_transports())

    status, _ = C.run_world(world, main())
    violations = []
    if status != "ok":
        violations.append(viol(f"C10:hang:{tr}", f"{which}() did not terminate: {status}"))
    for k in ("open_after", "open_later", "open_after_poll"):
        if state.get(k):
            violations.append(viol(f"C10:left-open:{tr}:{which}",
                                   f"{which}({fam}) over {tr}, keep-alive at its default (off): {state[k]} transport(s) open "
                                   f"({k.replace('_', ' ')})"))
            break
    open_now = set()
    for e in world.events:
        if e[2] == "open":
            if open_now:
                violations.append(viol(f"C10:two-open:{tr}:{which}", f"{which}({fam}): transport #{e[4]} opened at t={e[1]} while "
                                       f"{sorted(open_now)} still open"))
                break
            open_now.add(e[4])
        elif e[2] == "close":
            open_now.discard(e[4])
    rec = state.get("rec") or {}
    sig = ("entry", which, fam, tr, rec.get("outcome"))
    return C.package(world, case, violations, sig, True, {"entry_cases": 1, "transports_opened": len(net.transports)})


def run_case(case):
    if case.get("kind") == "entry":
        return run_entry(case)
    if case.get("kind") == "overlap":
        return run_overlap(case)
    goodwe, gp, ge = C.goodwe_mods()
    tr, tau, r, ka = case["transport"], case["timeout"], case["retries"], case["keep_alive"]
    world = World(max_steps=100_000)
    dev = SimInverter(mode="stamp")
    world.net.add_device(C.HOST, C.port_of(tr), dev)
    proto = C.make_protocol(tr, tau, r, ka)
    net = world.net
    violations = []
    log = []  # (step index, kind, info)
    dead = []  # (step index, transport id) of transports kept after close() although their loop is closed
    close_errors = []

    def open_count():
        return len(net.open_transports())

    # invariant (a): checked whenever a transmission happens and at every step boundary; and at open events below
    segs = [[]]
    for i, s in enumerate(case["steps"]):
        if s["op"] == "newloop":
            segs.append([])
        else:
            segs[-1].append((i, s))

    async def segment(items):
        for i, s in items:
            if s["op"] == "sleep":
                await asyncio.sleep(s["d"])
                log.append((i, "sleep", None))
            elif s["op"] == "toggle":
                proto.keep_alive = not proto.keep_alive
                log.append((i, "toggle", None))
            elif s["op"] == "close":
                try:
                    await proto.close()
                except Exception as e:  # noqa - close() that raises is an outcome of the library, not of the harness
                    close_errors.append((i, repr(e)))
                log.append((i, "close", open_count()))
                # after close() the object must not hold on to a transport whose event loop is closed: such a
                # transport's close() cannot complete (call_soon raises), its socket is released only when the last
                # reference goes away (private attribute, looked up defensively; silent if it is renamed)
                held = getattr(proto, "_transport", None)
                if held is not None and getattr(held, "_loop", None) is not None and held._loop.is_closed() \
                        and not getattr(held, "lost_called", True):
                    dead.append((i, held.tid))
            else:
                if (s.get("final") and not s.get("nodrain")) or case.get("loops") == "alt":
                    # 'once faults stop': let every network event still in flight (late answers, resets, ICMP
                    # errors scheduled by earlier fault scripts) arrive before the fault-free request starts
                    await asyncio.sleep(EPS)  # events already popped from the net but still in the ready queue
                    last = net.last_event_time()
                    while last is not None:
                        await asyncio.sleep(max(0.0, last - world.clock.now) + EPS)
                        last = net.last_event_time()
                net.begin_script(s["faults"], {"k": "ok"}, s["connects"])
                rec = await C.do_execute(world, proto, {"op": "read", "reg": 35100 + i, "count": 2}, "req%d" % i)
                rec["open_after"] = open_count()
                rec["ka"] = bool(proto.keep_alive)
                rec["step"] = i
                log.append((i, "req", rec))

    status = "ok"
    alt = case.get("loops") == "alt"
    persistent = []
    for si, items in enumerate(segs):
        if si > 0:
            log.append((-1, "newloop", None))
        if not items:
            continue
        if alt:
            # two persistent loops, used alternately; neither is closed while the history runs
            while len(persistent) <= si % 2:
                persistent.append(world.new_loop(f"P{len(persistent)}"))
            try:
                world.run(segment(items), loop=persistent[si % 2])
            except C.SimDeadlock as e:
                status = "deadlock"
            except C.SimBudget as e:
                status = "budget"
        else:
            status, _ = C.run_world(world, segment(items))
        if status != "ok":
            break
    for lp in persistent:
        try:
            lp.close()
        except Exception:  # noqa
            pass
    if status != "ok":
        violations.append(viol(f"C10:hang:{tr}", f"history did not terminate: {status}"))
    if close_errors:
        violations.append(viol(f"C10:close-raised:{tr}", f"close() at step {close_errors[0][0]} raised {close_errors[0][1]}"))
    if dead:
        violations.append(viol(f"C10:open-after-close:{tr}:dead-transport-kept",
                               f"after close() at step {dead[0][0]} the object still holds transport #{dead[0][1]}, which "
                               f"belongs to a closed event loop and cannot finish closing: its socket stays open"))

    # (a) at most one open transport at any time: replay open/close events from the world log
    open_now = set()
    for e in world.events:
        if e[2] == "open":
            if open_now:
                violations.append(viol(f"C10:two-open:{tr}:{'ka' if ka else 'noka'}",
                                       f"transport #{e[4]} opened at t={e[1]} while {sorted(open_now)} still open"))
                break
            open_now.add(e[4])
        elif e[2] == "close":
            open_now.discard(e[4])
    prev = None
    between_clean = True
    for (i, kind, info) in log:
        if kind == "req":
            rec = info
            s = case["steps"][i]
            ka = rec["ka"]
            if not ka and rec["open_after"] != 0:
                violations.append(viol(f"C10:left-open:{tr}:{rec['outcome']}",
                                       f"keep-alive off: {rec['open_after']} transport(s) open after request at step {i} "
                                       f"({rec['outcome']})"))
            if rec["open_after"] > 1:
                violations.append(viol(f"C10:two-open:{tr}:{'ka' if ka else 'noka'}",
                                       f"{rec['open_after']} transports open after step {i}"))
            txs = net.transmissions[rec["tx0"]:rec["tx1"]]
            clean = (rec["outcome"] == "result" and len(txs) == 1 and not s["faults"] and not s["connects"])
            # peer-side events between the two requests: closes/resets/errors at any time, and ANY stray delivery
            # that reached the idle socket (e.g. a late exception frame, which legitimately closes a UDP socket)
            disturbed = prev is not None and any(
                d["status"] == "delivered" and (
                    (d["kind"] in ("fin", "rst", "icmp") and prev["t0"] <= d["t_run"] <= rec["t1"]) or
                    (d["tx"] < rec["tx0"] and prev["t1"] <= d["t_run"] <= rec["t1"] and d["t_run"] > prev["t_done"]))
                for d in net.deliveries)
            if ka and prev is not None and between_clean and clean and prev["clean"] and not disturbed:
                if prev["tid"] != txs[0]["tid"]:
                    violations.append(viol(f"C10:not-reused:{tr}",
                                           f"keep-alive on: consecutive clean successes used transports "
                                           f"#{prev['tid']} and #{txs[0]['tid']}"))
            if alt and status == "ok" and (rec["outcome"] != "result" or len(txs) != len(s["faults"]) + 1):
                violations.append(viol(f"C10:not-recovered:{tr}:alternating-loops",
                                       f"two open event loops used alternately: request at step {i} "
                                       f"({len(s['faults'])} transmissions lost, retries={r}) ended {rec['outcome']} after "
                                       f"{len(txs)} transmission(s)"))
            elif s.get("final") and status == "ok" and case.get("fin_race"):
                if rec["outcome"] != "result":
                    violations.append(viol(f"C10:not-recovered:tcp:fin-right-after-answer:retries={r}",
                                           f"the peer closes the connection right after each answer; the request issued "
                                           f"straight after the previous answer ended {rec['outcome']} after {len(txs)} "
                                           f"transmission(s) instead of reconnecting (retries={r})"))
            elif s.get("final") and status == "ok":
                if rec["outcome"] != "result":
                    violations.append(viol(f"C10:not-recovered:{tr}",
                                           f"fault-free request after the history ended {rec['outcome']} "
                                           f"({len(txs)} transmissions)"))
            prev = {"clean": clean, "tid": txs[0]["tid"] if txs else None, "t0": rec["t0"], "t1": rec["t1"],
                    "t_done": rec["t1"]}
            between_clean = True
        elif kind == "close":
            if info != 0:
                violations.append(viol(f"C10:open-after-close:{tr}", f"{info} transport(s) open after close() at step {i}"))
            between_clean = False
        elif kind in ("newloop", "toggle"):
            between_clean = False
    ka = case["keep_alive"]
    kinds = tuple((s["op"],) + tuple(f["k"] for f in s.get("faults", ())) + tuple(c["k"] for c in s.get("connects", ()))
                  for s in case["steps"])
    outcomes = tuple(info["outcome"] for (_, k, info) in log if k == "req")
    sig = (tr, ka, r, kinds, outcomes, len(net.transports))
    nontrivial = any(s["op"] in ("close", "newloop") or s.get("faults") or s.get("connects") for s in case["steps"])
    probes = {"transports_opened": len(net.transports), "close_calls": sum(1 for s in case["steps"] if s["op"] == "close"),
              "loop_changes": len(segs) - 1, "keep_alive_toggles": sum(1 for s in case["steps"] if s["op"] == "toggle"),
              "reuse_checked": 0, "final_ok": 1 if outcomes and outcomes[-1] == "result" else 0}
    return C.package(world, case, violations, sig, nontrivial, probes)
