"""C03 - requests on the wire are canonical, decodable frames carrying the arguments (DESIGN 6/C03)."""
from __future__ import annotations

from sim.net import World, DEFAULT_LATENCY
from sim.device import SimInverter
from sim import codec
from . import common as C
from . import devices
from .common import EPS, viol

ID = "C03"
LEVEL = "exploration"
BATCH = 8
RULE = ("Monitor in the peer: EVERY frame it receives is parsed by the independent codec and compared with the "
        "operation the harness asked for (address, function, big-endian register, value in two's complement / count, "
        "multi-write count = bytes/2 and byte count = len, CRC-16; MBAP protocol id 0, length = bytes that follow, "
        "transaction id != 0 and != the previous transmission's; AA55 header C07F, length byte = payload length, "
        "additive checksum).  Workload: (a) batches of 40 protocol-level commands over the argument grid (boundaries "
        "0,1,0x7F,0x80,0xFF,0x7FFF,0x8000,0xFFFF,-1,-32768 + seeded values; comm addresses 0..255; AA55 commands also over a TCP connection (ES family behind port 502); even payload "
        "lengths 2..246; AA55 8-byte groups), some under loss so that retransmissions are seen; (b) histories: "
        ">65535 consecutive Modbus/TCP transmissions across two inverter objects incl. retransmissions (transaction "
        "id wrap); (c) every public setter of ET/DT/ES with valid arguments (frames must be canonical; the argument "
        "comparison is C17/C19).  Non-trivial: every batch; distinct: (framing, op, argument boundary classes).")
ASSUMPTIONS = [
    "AA55 0239 single write payload = register(2) 01 value(2); multi write = register(2) byte-count(1) data, length "
    "byte 0x0B, i.e. canonical only for 8-byte groups (the quantifier restricts AA55 multi-writes to those)",
    "the independent codec is the reference (cross-checked against recorded frames by selftest)",
]
LEVEL_TEXT = ("Exploration: the peer's parser is an invariant monitor on every delivered message; the argument grid is "
              "enumerated at its boundaries and sampled inside; the transaction-id clause is checked over a 70 000 "
              "transmission history in virtual time.")
LEVEL_NOTE = "Trusted: the independent codec."
TECHNIQUE = "deterministic simulation with an independent frame parser as invariant monitor in the peer"

N_GRID = {"quick": 500, "thorough": 200_000}      # batches of 40 commands
N_WRAP = {"quick": 1, "thorough": 4}
N_SETTERS = {"quick": 60, "thorough": 600}
PER_BATCH = 40
B16 = [0, 1, 2, 0x7F, 0x80, 0xFF, 0x100, 0x7FFF, 0x8000, 0xFFFE, 0xFFFF]
BS16 = [0, 1, -1, 0x7F, 0x80, 0xFF, 0x100, 0x7FFF, -0x8000, -0x7FFF, -2, -128, -129, -256, -257]


def n_cases(tier):
    return N_WRAP[tier] + N_SETTERS[tier] + N_GRID[tier]


def make_case(tier, seed, index):
    rnd = C.rng_for(seed, ID, index)
    if index < N_WRAP[tier]:
        return {"kind": "wrap", "n": 70_000 + index * 1000, "retry_every": [7, 5, 11, 3][index % 4]}
    index -= N_WRAP[tier]
    if index < N_SETTERS[tier]:
        return {"kind": "setters", "family": ["ET", "DT", "ES", "ES2"][index % 4],
                "transport": "udp" if index % 4 >= 2 else ["udp", "tcp"][(index // 4) % 2], "vseed": index,
                "entry": "connect" if index % 3 == 0 else None}
    fr = rnd.choice(["rtu", "tcp", "aa55", "aa55tcp"])   # aa55tcp: AA55 commands over a TCP connection
    addr = rnd.choice([0, 1, 0x7F, 0x80, 0xF7, 0xFF, rnd.randrange(256)])
    cmds = []
    for _ in range(PER_BATCH):
        reg = rnd.choice(B16) if rnd.random() < 0.5 else rnd.randrange(65536)
        if fr in ("rtu", "tcp"):
            op = rnd.choice(["read", "write", "wmulti"])
            if op == "read":
                cmds.append({"op": "read", "reg": reg, "count": rnd.choice([1, 2, 124, 125, rnd.randint(1, 125)])})
            elif op == "write":
                cmds.append({"op": "write", "reg": reg,
                             "value": rnd.choice(BS16) if rnd.random() < 0.6 else rnd.randrange(-32768, 32768)})
            else:
                n = rnd.choice([2, 4, 8, 12, 244, 246, 2 * rnd.randint(1, 123)])
                cmds.append({"op": "wmulti", "reg": reg, "hex": bytes(rnd.getrandbits(8) for _ in range(n)).hex()})
        else:
            op = rnd.choice(["aa55read", "aa55write", "aa55wmulti"])
            if op == "aa55read":
                cmds.append({"op": "aa55read", "reg": reg, "count": rnd.choice([1, 2, 125, rnd.randint(1, 125)])})
            elif op == "aa55write":
                cmds.append({"op": "aa55write", "reg": reg,
                             "value": rnd.choice(BS16) if rnd.random() < 0.6 else rnd.randrange(-32768, 32768)})
            else:
                cmds.append({"op": "aa55wmulti", "reg": reg, "hex": bytes(rnd.getrandbits(8) for _ in range(8)).hex()})
    lossy = rnd.random() < 0.3
    return {"kind": "grid", "framing": fr, "comm_addr": addr, "cmds": cmds, "lossy": lossy,
            "keep_alive": rnd.random() < 0.5}


def simplify(case):
    return []


def expect_frame(fr, addr, cmd):
    """What the independent parser must see for this command (dict compared field by field)."""
    op = cmd["op"]
    if op == "read":
        return {"addr": addr, "fc": 3, "reg": cmd["reg"], "count": cmd["count"]}
    if op == "write":
        return {"addr": addr, "fc": 6, "reg": cmd["reg"], "value": cmd["value"] & 0xFFFF}
    if op == "wmulti":
        data = bytes.fromhex(cmd["hex"])
        return {"addr": addr, "fc": 16, "reg": cmd["reg"], "count": len(data) // 2, "bytecount": len(data), "data": data}
    if op == "aa55read":
        return {"cmd": 0x011A, "payload": bytes([cmd["reg"] >> 8, cmd["reg"] & 0xFF, cmd["count"]])}
    if op == "aa55write":
        v = cmd["value"] & 0xFFFF
        return {"cmd": 0x0239, "payload": bytes([cmd["reg"] >> 8, cmd["reg"] & 0xFF, 1, v >> 8, v & 0xFF])}
    if op == "aa55wmulti":
        data = bytes.fromhex(cmd["hex"])
        return {"cmd": 0x0239, "payload": bytes([cmd["reg"] >> 8, cmd["reg"] & 0xFF, len(data)]) + data}
    raise ValueError(op)


def check_mbap(violations, parsed_list, where):
    prev = None
    for p in parsed_list:
        if p["framing"] != "tcp":
            continue
        if p["proto"] != 0:
            violations.append(viol("C03:mbap:proto", f"{where}: protocol id {p['proto']} in {p['raw'].hex()}"))
            return
        if p["length"] != p["following"]:
            violations.append(viol("C03:mbap:length", f"{where}: length field {p['length']} but {p['following']} bytes follow"))
            return
        if p["tx"] == 0:
            violations.append(viol("C03:mbap:tx-zero", f"{where}: transaction id 0 in {p['raw'].hex()}"))
            return
        if prev is not None and p["tx"] == prev:
            violations.append(viol("C03:mbap:tx-repeated", f"{where}: transaction id {p['tx']} used for two consecutive transmissions"))
            return
        prev = p["tx"]


def run_case(case):
    if case["kind"] == "grid":
        return run_grid(case)
    if case["kind"] == "wrap":
        return run_wrap(case)
    return run_setters(case)


def run_grid(case):
    fr = case["framing"]
    tr = "tcp" if fr in ("tcp", "aa55tcp") else "udp"
    addr = case["comm_addr"]
    world = World(max_steps=200_000)
    dev = SimInverter(mode="file", seed=1)
    world.net.add_device(C.HOST, C.port_of(tr), dev)
    proto = C.make_protocol(tr, 0.25, 2, case["keep_alive"], addr)
    # a second protocol object for another inverter with ANOTHER comm address issues the same commands in the same
    # process: each object's frames must carry its own address
    addr2 = (addr + 0x55) & 0xFF
    world.net.add_device("10.0.0.2", C.port_of(tr), dev)
    proto2 = C.make_protocol(tr, 0.25, 2, case["keep_alive"], addr2, host="10.0.0.2")
    violations = []
    seen = []  # (cmd, frames seen by the peer incl. lost ones, rec, expected address)
    all_frames = []

    def on_tx(rec):
        all_frames.append(rec["data"])

    world.net.on_transmission = on_tx

    async def main():
        for i, cmd in enumerate(case["cmds"]):
            if case["lossy"] and i % 3 == 0:
                world.net.begin_script([{"k": "drop"}], {"k": "ok"})
            else:
                world.net.begin_script([], {"k": "ok"})
            for pr, ad in ((proto, addr), (proto2, addr2)) if i % 2 == 0 else ((proto2, addr2), (proto, addr)):
                n0 = len(all_frames)
                try:
                    rec = await C.do_execute(world, pr, cmd, "c%d" % i)
                except Exception as e:  # command construction failed
                    rec = {"outcome": "construct:" + type(e).__name__, "exc": e}
                seen.append((cmd, all_frames[n0:], rec, ad))
                if case["lossy"] and i % 3 == 0:
                    world.net.begin_script([{"k": "drop"}], {"k": "ok"})

    status, _ = C.run_world(world, main())
    if status != "ok":
        violations.append(viol("C03:hang", f"grid batch did not terminate: {status}"))
    parsed_all = []
    for cmd, frames, rec, ad in seen:
        op = cmd["op"]
        if rec["outcome"].startswith("construct:") or (not frames and rec["outcome"].startswith("other:")):
            neg = cmd.get("value", 0) < 0
            violations.append(viol(f"C03:construct:{op}:{'negative' if neg else 'arg'}",
                                   f"{cmd}: no frame was produced: {rec.get('exc')!r}"))
            continue
        want = expect_frame(fr, ad, cmd)
        for f in frames:
            try:
                p = codec.parse_request(f, tr)
            except codec.CodecError as e:
                violations.append(viol(f"C03:unparsable:{fr}:{op}", f"{cmd}: {e}"))
                break
            p["raw"] = f
            parsed_all.append(p)
            bad = [k for k, v in want.items() if p.get(k) != v]
            if bad:
                violations.append(viol(f"C03:wrong-field:{fr}:{op}:{bad[0]}",
                                       f"{cmd}: frame {f.hex()} decodes to {[(k, p.get(k)) for k in bad]}, wanted "
                                       f"{[(k, want[k]) for k in bad]}"))
                break
        if not frames:
            violations.append(viol(f"C03:no-frame:{fr}:{op}", f"{cmd}: nothing transmitted ({rec['outcome']})"))
    check_mbap(violations, parsed_all, "grid")
    if dev.unparsed:
        violations.append(viol(f"C03:unparsable:{fr}:peer", f"peer could not parse {dev.unparsed[0]}"))

    def bclass(v):
        return v if v in B16 or v in BS16 else ("neg" if v < 0 else "mid")
    sigs = [(fr, c["op"], bclass(c["reg"]), bclass(c.get("value", c.get("count", len(c.get("hex", "")) // 2))))
            for c in case["cmds"]]
    sig = (fr, addr, case["lossy"])
    return C.package(world, case, violations, sig, True, {"frames_checked": len(all_frames), "commands": len(seen)},
                     sigs=sigs + [sig])


def run_wrap(case):
    """>65535 consecutive Modbus/TCP transmissions over two inverter objects, with retransmissions."""
    goodwe, gp, ge = C.goodwe_mods()
    world = World(max_steps=5_000_000, max_time=1e9)
    dev = SimInverter(mode="stamp")
    world.net.add_device(C.HOST, C.TCP_PORT, dev)
    world.net.add_device("10.0.0.2", C.TCP_PORT, dev)
    a = C.make_protocol("tcp", 0.25, 2, True, 0xF7)
    b = C.make_protocol("tcp", 0.25, 2, True, 0x7F, host="10.0.0.2")
    txids = []
    bad = []

    def on_tx(rec):
        d = rec["data"]
        txids.append(((d[0] << 8) | d[1], rec["owner"]))
        if d[2:4] != b"\x00\x00" or ((d[4] << 8) | d[5]) != len(d) - 6:
            bad.append(d.hex())

    world.net.on_transmission = on_tx
    n = case["n"]
    every = case["retry_every"]
    world.events = _NullLog()

    async def main():
        i = 0
        while len(txids) < n:
            p = a if i % 2 == 0 else b
            if i % every == 0:
                world.net.begin_script([{"k": "drop"}], {"k": "ok"})
            else:
                world.net.begin_script([], {"k": "ok"})
            cmd = p.read_command(35100 + (i % 50), 1) if i % 5 else p.write_command(47000 + (i % 9), i & 0x7FFF)
            try:
                await cmd.execute(p)
            except ge.InverterError:
                raise
            except Exception as e:  # noqa - e.g. the id no longer fits its two bytes
                crashed.append((len(txids), repr(e)))
                return
            i += 1

    crashed = []
    status, _ = C.run_world(world, main())
    violations = []
    if status != "ok":
        violations.append(viol("C03:hang:wrap", f"wrap history did not terminate: {status}"))
    if crashed:
        violations.append(viol("C03:wrap:exception", f"after {crashed[0][0]} Modbus/TCP transmissions in this process a "
                               f"request ended with {crashed[0][1]}"))
    if bad:
        violations.append(viol("C03:mbap:length", f"non-canonical MBAP header in {bad[0]}"))
    prev = None
    zero = sum(1 for t, _ in txids if t == 0)
    if zero:
        violations.append(viol("C03:mbap:tx-zero", f"{zero} transmissions carried transaction id 0 in a history of {len(txids)}"))
    for k, (t, owner) in enumerate(txids):
        if prev is not None and t == prev:
            violations.append(viol("C03:mbap:tx-repeated", f"transmissions {k - 1} and {k} both carry transaction id {t}"))
            break
        prev = t
    wraps = sum(1 for x, y in zip(txids, txids[1:]) if y[0] < x[0])
    world.events = []
    world.log("wrap", len(txids), wraps, zero, txids[-1][0] if txids else None)
    sig = ("wrap", case["n"], every, wraps)
    return C.package(world, dict(case), violations, sig, True, {"wrap_transmissions": len(txids), "txid_wraps": wraps},
                     sigs=[sig, ("wrap-alt", wraps)])


class _NullLog(list):
    def append(self, x):
        pass


def _valid_value(s, rnd):
    """A valid value for a setting by its type name (C03 only needs *some* valid arguments)."""
    t = type(s).__name__
    if t in ("Integer",):
        return rnd.choice([0, 1, 100, 65534])
    if t == "IntegerS":
        return rnd.choice([0, -1, 100])
    if t in ("Long",):
        return rnd.choice([0, 1, 100000])
    if t in ("Voltage", "Current"):
        return rnd.choice([0, 50.5, 230.0])
    if t == "CurrentS":
        return rnd.choice([0, -5.0, 5.0])
    if t == "Decimal":
        return rnd.choice([0, 0.5, -0.5])
    if t in ("ByteH", "ByteL"):
        if s.id_.endswith("_switch"):
            return rnd.choice([0, -1])   # the on/off byte of a schedule group: other values make the group undecodable
        return rnd.choice([0, 1, -1, 100, -128])
    if t == "Timestamp":
        return "2023-05-17T10:11:12"
    if t == "EcoModeV1":
        return bytes.fromhex("0000173b0014ff7f")
    if t in ("EcoModeV2", "PeakShavingMode", "Schedule"):
        return bytes.fromhex("0000173bff7f001400640000") if t != "PeakShavingMode" else bytes.fromhex("0000173bfc7f001400640000")
    return None


def run_setters(case):
    import random
    goodwe, gp, ge = C.goodwe_mods()
    fam = case["family"]
    tr = case["transport"]
    rnd = random.Random(case["vseed"])
    world = World(max_steps=2_000_000)
    if fam == "ET":
        dev = devices.make_et(fill="zero", comm_addr=None, restrict=False)
        inv = goodwe.ET(C.HOST, C.port_of(tr), 0, 1, 1)
    elif fam == "DT":
        dev = devices.make_dt(fill="zero", comm_addr=None, restrict=False)
        inv = goodwe.DT(C.HOST, C.port_of(tr), 0, 1, 1)
    else:
        dev = devices.make_es(runtime=bytes(142), settings=bytes(86), fill="zero",
                              firmware="2525E" if fam == "ES2" else "14147", eco_v2_modbus=(fam == "ES2"))
        dev.comm_addr = None
        dev.set_aa55_bytes(1793, bytes.fromhex("0000173b0014ff7f"))
        inv = goodwe.ES(C.HOST, C.port_of(tr), 0, 1, 1)
    for a in (47515, 47519, 47523, 47527):
        dev.set_bytes(a, bytes.fromhex("3000300000640000"))
    for a in (47547, 47553, 47559, 47565):
        dev.set_bytes(a, bytes.fromhex("300030000000006400640000"))
    world.net.add_device(C.HOST, C.port_of(tr), dev)
    frames = []
    world.net.on_transmission = lambda rec: frames.append(rec["data"])
    calls = []
    world.events = _NullLog()

    holder = {}

    async def main():
        nonlocal inv
        if case.get("entry") == "connect" and tr == "udp" and fam == "DT":
            dev.comm_addr = 0x7F   # answers its own address only: discovery has to probe the families one by one
        if case.get("entry") == "connect" and tr == "udp":
            # the object is obtained through goodwe.connect() without a family (discovery), like applications do
            try:
                got = await goodwe.connect(C.HOST, C.port_of(tr), None, 0, 1, 1)
            except Exception:  # noqa - not recognised by discovery: keep the constructed object
                got = None
            if got is not None and type(got).__name__ == type(inv).__name__:
                inv = got
                holder["via"] = "connect"
            holder["from"] = len(frames)   # discovery probes with the addresses of all families
        await inv.read_device_info()
        ids = [s.id_ for s in inv.settings()]
        rnd.shuffle(ids)
        smap = {s.id_: s for s in inv.settings()}
        for sid in ids:
            v = _valid_value(smap[sid], rnd)
            if v is None:
                continue
            calls.append(await C.do_call(world, f"write_setting:{sid}", lambda: inv.write_setting(sid, v)))
        if fam != "DT":
            for m in await inv.get_operation_modes(True):
                calls.append(await C.do_call(world, f"set_operation_mode:{int(m)}",
                                             lambda: inv.set_operation_mode(m, rnd.randint(1, 100), rnd.randint(0, 100))))
            calls.append(await C.do_call(world, "set_ongrid_battery_dod", lambda: inv.set_ongrid_battery_dod(rnd.randint(0, 89))))
            if fam in ("ES", "ES2"):
                calls.append(await C.do_call(world, "write_setting:time", lambda: inv.write_setting("time", "2023-05-17T10:11:12")))
        calls.append(await C.do_call(world, "set_grid_export_limit", lambda: inv.set_grid_export_limit(rnd.choice([0, 1, 5000, 10000]))))
        # overlapping pollers on the one object: the same command objects are issued while another is in flight
        import asyncio
        n = rnd.randint(2, 4)
        for rec in await asyncio.gather(*[C.do_call(world, f"concurrent-poll:{i}", inv.read_runtime_data)
                                          for i in range(n)]):
            calls.append(rec)

    status, _ = C.run_world(world, main())
    violations = []
    if status != "ok":
        violations.append(viol(f"C03:hang:setters:{fam}", f"did not terminate: {status}"))
    parsed = []
    for f in frames:
        try:
            p = codec.parse_request(f, tr)
            p["raw"] = f
            parsed.append(p)
        except codec.CodecError as e:
            violations.append(viol(f"C03:unparsable:setters:{fam}", f"{e}"))
            break
    check_mbap(violations, parsed, f"setters:{fam}")
    # every Modbus frame of this object carries the family's default comm address (the object was created with 0)
    want_addr = {"ET": 0xF7, "DT": 0x7F, "ES": 0xF7, "ES2": 0xF7}[fam]
    for p_ in parsed[holder.get("from", 0):]:
        if p_["framing"] in ("rtu", "tcp") and p_.get("addr") != want_addr:
            violations.append(viol(f"C03:setters:comm-addr:{fam}",
                                   f"{fam} object ({holder.get('via', 'constructor')}): frame {p_['raw'].hex()} is addressed "
                                   f"to 0x{p_.get('addr', -1):02x}, the family's address is 0x{want_addr:02x}"))
            break
    for rec in calls:
        if rec["outcome"].startswith("other:"):
            typ = rec["outcome"].split(":", 1)[1]
            violations.append(viol(f"C03:setter-exception:{fam}:{rec['label'].split(':')[0]}:{typ}",
                                   f"{rec['label']} with a valid argument raised {rec.get('exc')!r}"))
            break
    world.events = []
    world.log("setters", fam, tr, len(frames), [f.hex() for f in frames[:400]])
    sig = ("setters", fam, tr, case["vseed"] % 7)
    return C.package(world, case, violations, sig, True, {"setter_frames_checked": len(frames), "setter_calls": len(calls)})
