"""C19 - operation mode, export limit and DoD setters round-trip with their getters (DESIGN 6/C19)."""
from __future__ import annotations

import random

from sim.net import World
from sim import refdecode as R
from . import common as C
from . import devices
from .common import viol

ID = "C19"
LEVEL = "exploration"
BATCH = 1
RULE = ("Stateful peer.  (a) modes: for every mode m of get_operation_modes(True): set_operation_mode(m, p, s) then "
        "get_operation_mode(), on ET {eco-mode v1, v2, v2 on the 745 platform, v2 without peak shaving} (UDP and TCP) "
        "and ES {v1 over AA55, v2 over Modbus}, with PRIOR contents of eco group 1 of every kind {off, 24/7 charge, "
        "24/7 discharge, every schedule type on/off, 745-scaled, NOT_SET marker, undecodable garbage} and groups 2-4 "
        "switched on; (p, s) over a grid of boundaries + seeded values in quick, ALL 100 x 101 pairs in thorough.  "
        "Oracle: the getter returns m; for ECO_CHARGE / ECO_DISCHARGE group 1 IN THE PEER'S REGISTERS decodes "
        "(reference decoder, schedule-type aware) to an all-day, every-day, enabled ECO-MODE typed group with power "
        "-p / +p and SoC == s (both emulated modes; an 8-byte group has no SoC field, so any s != 100 is reported - "
        "these SoC deviations are listed known findings), and groups 2-4 have a non-negative on/off byte.  A third of the mode cases answer one request of the setter's sequence with a Modbus exception, another third lose one request together with its retransmission: the setter must raise or really have set everything.  A setter that raises makes the case vacuous (counted).  (b) export "
        "limit: set/get for all values 0..65535 (thorough; stride in quick; 65535 reads back as 0 - a listed known finding) on ET, DT (three-/single-phase) and ES; "
        "(c) DoD: all 0..100 on ET and ES.  Non-trivial: every case; distinct: (config, mode, prior kind, p, s).")
ASSUMPTIONS = [
    "ES device model: 0359 sets the work mode word of the settings block (offset 66), 0335 the export limit "
    "(offset 52), register 0x560 is the DoD word (offset 32); other 03xx commands are acknowledged only (DESIGN 2.4)",
    "s == 100 on an 8-byte (v1) group counts as satisfied (100 % = no limit is what a group without the field does)",
    "group 1 must carry schedule type 0 (eco mode) or 6 (eco mode, 745 platform): 'whatever schedule type the firmware "
    "uses' is read as these two eco flavours, not as dry-contact / peak-shaving / backup / smart-charge schedules",
    "'other groups switched off' is read from the peer's registers (on/off byte >= 0)",
]
LEVEL_TEXT = ("Seeded exploration over firmware variants x prior register states x argument grid, with the peer's "
              "register file as oracle for what was really written (not the library's own decode).")
LEVEL_NOTE = "Trusted: peer model of the ES setting commands; reference decoder."
TECHNIQUE = "deterministic simulation: stateful peer, setter then getter, reference decode of the written groups"

CONFIGS = [("ET", "v1", "udp"), ("ET", "v2", "udp"), ("ET", "v2", "tcp"), ("ET", "v2_745", "udp"), ("ET", "v2_nopeak", "udp"),
           ("ES", "v1", "udp"), ("ES", "v2", "udp"),
           # old ARM firmware (version 4 < 7: the mode helpers take another path) and an ES object that never read its
           # device info (arm_version 0)
           ("ES", "v1_oldarm", "udp"), ("ES", "v1_noinfo", "udp")]
PRIORS = ["off", "charge247", "discharge247", "type1_on", "type2_off", "type3_on", "type4_on", "type5_off", "t745_on",
          "t745_charge247", "notset", "garbage", "zeros", "winter_months", "one_month",
          # undecodable only AFTER the type byte: a foreign type is recognised, then a field is out of range
          "type3_badsoc", "t745_badsoc", "type4_badpower"]
MODE_SLOTS = 8
PS_PER_CASE = 12
PS_CHUNKS = {"quick": 1, "thorough": 842}
EXPORT_STRIDE = {"quick": 61, "thorough": 1}
_SPACE = {}


def _space(tier):
    if tier not in _SPACE:
        out = []
        for ci in range(len(CONFIGS)):
            for mi in range(MODE_SLOTS):
                for pi in range(len(PRIORS)):
                    for ch in range(PS_CHUNKS[tier] if mi >= 6 else 1):
                        out.append(("mode", ci, mi, pi, ch))
        for fam_i in range(4):
            n = (65535 + EXPORT_STRIDE[tier] * 256 - 1) // (EXPORT_STRIDE[tier] * 256)
            for ch in range(n):
                out.append(("export", fam_i, ch))
        for ci in range(len(CONFIGS)):
            out.append(("dod", ci))
        _SPACE[tier] = out
    return _SPACE[tier]


def warm(tier):
    _space(tier)


def n_cases(tier):
    return len(_space(tier))


def make_case(tier, seed, index):
    c = _space(tier)[index]
    if c[0] == "mode":
        _, ci, mi, pi, ch = c
        rj = None
        lose = None
        if CONFIGS[ci][0] == "ET" and index % 3 == 2:
            rj = [(index // 3) % 9, [3, 4, 6][(index // 27) % 3]]
        elif index % 3 == 1:
            # the j-th request of the setter's sequence is lost together with its retransmission
            lose = (index // 3) % 12
        return {"kind": "mode", "config": ci, "mode_slot": mi, "prior": PRIORS[pi], "chunk": ch,
                "seed": (seed * 4099 + index) & 0xFFFFFF, "thorough": tier == "thorough", "reject": rj, "lose": lose}
    if c[0] == "export":
        return {"kind": "export", "fam": c[1], "chunk": c[2], "stride": EXPORT_STRIDE[tier], "seed": seed}
    return {"kind": "dod", "config": c[1], "seed": seed}


def simplify(case):
    out = []
    if case.get("reject") is not None:
        out.append(dict(case, reject=None))
    if case.get("lose") is not None:
        out.append(dict(case, lose=None))
    return out


def v1_group(sh, sm, eh, em, power, on, days):
    return bytes([sh, sm, eh, em]) + power.to_bytes(2, "big", signed=True) + bytes([0xFF if on else 0, days])


def v2_group(sh, sm, eh, em, on_off, days, power, soc, months):
    return bytes([sh, sm, eh, em, on_off & 0xFF, days]) + power.to_bytes(2, "big", signed=True) + \
        soc.to_bytes(2, "big") + months.to_bytes(2, "big")


def prior_bytes(kind, v2, rnd):
    if not v2:
        return {
            "off": v1_group(48, 0, 48, 0, 100, False, 0),
            "charge247": v1_group(0, 0, 23, 59, -50, True, 127),
            "discharge247": v1_group(0, 0, 23, 59, 70, True, 127),
            "garbage": bytes([99, 99, 99, 99, 0x7F, 0xFF, 0x55, 0xAA]),
            "zeros": bytes(8),
        }.get(kind, v1_group(rnd.randrange(24), rnd.randrange(60), rnd.randrange(24), rnd.randrange(60),
                             rnd.randint(-100, 100), rnd.random() < 0.5, rnd.randrange(128)))
    table = {
        "off": v2_group(48, 0, 48, 0, 0, 0, 100, 100, 0),
        "charge247": v2_group(0, 0, 23, 59, 0xFF, 127, -50, 80, 0),
        "discharge247": v2_group(0, 0, 23, 59, 0xFF, 127, 70, 100, 0),
        "type1_on": v2_group(1, 0, 2, 0, 0xFE, 127, 20, 50, 0),
        "type2_off": v2_group(1, 0, 2, 0, 2, 1, 20, 50, 0),
        "type3_on": v2_group(1, 0, 2, 0, 0xFC, 127, 200, 50, 0),
        "type4_on": v2_group(1, 0, 2, 0, 0xFB, 127, 20, 50, 0),
        "type5_off": v2_group(1, 0, 2, 0, 5, 127, 20, 50, 0),
        "t745_on": v2_group(6, 0, 7, 0, 0xF9, 127, -450, 90, 0x0FFF),
        "t745_charge247": v2_group(0, 0, 23, 59, 0xF9, 127, -450, 90, 0x0FFF),
        "notset": v2_group(0xFF, 0xFF, 0xFF, 0xFF, 85, 0, 0, 0, 0),
        "winter_months": v2_group(8, 0, 17, 30, 0xFF, 0x3E, -30, 60, 0x0C03),
        "one_month": v2_group(8, 0, 17, 30, 0, 0x01, 30, 60, 0x0800),
        "type3_badsoc": v2_group(1, 0, 2, 0, 0xFC, 127, 200, 255, 0),
        "t745_badsoc": v2_group(6, 0, 7, 0, 0xF9, 127, -450, 255, 0x0FFF),
        "type4_badpower": v2_group(1, 0, 2, 0, 0xFB, 127, 20, 0xFFFD, 0),
        "garbage": bytes([99, 99, 99, 99, 0x33, 0xAA, 0x7F, 0xFF, 0x12, 0x34, 0x7F, 0xFF]),
        "zeros": bytes(12),
    }
    return table[kind]


def is_247(ref):
    return (ref is not R.NOVALUE and ref["start_h"] == 0 and ref["start_m"] == 0 and ref["end_h"] == 23 and ref["end_m"] == 59
            and ref["day_bits"] == 127 and ref["power"] != 0 and ref["on_off"] < 0 and ref["on_off"] != 0)


def build(goodwe, ci, seed):
    fam, var, tr = CONFIGS[ci]
    if fam == "ET":
        caps = {"v1": ("battery", "peak_shaving"), "v2": ("battery", "eco_v2", "peak_shaving"),
                "v2_745": ("battery", "eco_v2", "peak_shaving"), "v2_nopeak": ("battery", "eco_v2")}[var]
        serial = "9010KETT000W0001" if var == "v2_745" else "9010KETU000W0001"
        dev = devices.make_et(serial=serial, caps=caps, seed=seed, fill="zero", comm_addr=None)
        inv = goodwe.ET(C.HOST, C.port_of(tr), 0, 1, 1)
        v2 = var != "v1"
        bases = [47547, 47553, 47559, 47565] if v2 else [47515, 47519, 47523, 47527]
    else:
        v2 = var == "v2"
        dev = devices.make_es(seed=seed, fill="zero",
                              firmware="2525E" if v2 else ("04045" if var == "v1_oldarm" else "14147"), eco_v2_modbus=v2,
                              runtime=bytes(142), settings=bytes(86))
        dev.comm_addr = None
        inv = goodwe.ES(C.HOST, C.port_of(tr), 0, 1, 1)
        bases = [47547, 47553, 47559, 47565] if v2 else [1793, 1797, 1801, 1805]
    return fam, var, tr, dev, inv, v2, bases


def run_case(case):
    if case["kind"] == "mode":
        return run_mode(case)
    if case["kind"] == "export":
        return run_export(case)
    return run_dod(case)


def ps_pairs(case, rnd):
    if case["thorough"]:
        allp = [(p, s) for p in range(1, 101) for s in range(0, 101)]
        return allp[case["chunk"] * PS_PER_CASE:(case["chunk"] + 1) * PS_PER_CASE]
    grid = [(1, 0), (100, 100), (45, 80), (2, 1), (99, 99), (10, 50), (100, 0), (1, 100)]
    return grid + [(rnd.randint(1, 100), rnd.randint(0, 100)) for _ in range(PS_PER_CASE - len(grid))]


def run_mode(case):
    goodwe, gp, ge = C.goodwe_mods()
    import goodwe as gw
    rnd = random.Random(case["seed"])
    fam, var, tr, dev, inv, v2, bases = build(goodwe, case["config"], case["seed"] & 0xFFFF)
    aa55 = fam == "ES" and not v2
    world = World(max_steps=3_000_000)
    world.net.add_device(C.HOST, C.port_of(tr), dev)
    world.events = _Quiet()
    violations = []
    keys = set()
    stats = {"round_trips": 0, "vacuous": 0}
    sigs = []
    glen = 12 if v2 else 8

    def add(key, detail):
        if key not in keys:
            keys.add(key)
            violations.append(viol(key, detail))

    def setg(i, b):
        (dev.set_aa55_bytes if aa55 else dev.set_bytes)(bases[i], b)

    def getg(i):
        return (dev.get_aa55_bytes if aa55 else dev.get_bytes)(bases[i], glen // 2)

    def decode(b):
        return R.decode("EcoModeV2" if v2 else "EcoModeV1", b)

    async def main():
        for i in range(4):
            setg(i, prior_bytes("off", v2, rnd))
        if var != "v1_noinfo":
            await inv.read_device_info()
        modes = list(await inv.get_operation_modes(True))
        if case["mode_slot"] >= len(modes):
            return
        m = modes[case["mode_slot"]]
        emulated = m in (gw.OperationMode.ECO_CHARGE, gw.OperationMode.ECO_DISCHARGE)
        pairs = ps_pairs(case, rnd) if emulated else [(rnd.randint(1, 100), rnd.randint(0, 100))]
        for (p, s) in pairs:
            if case.get("from_mode", True):
                # the inverter is in ANOTHER mode before the call (set through the library itself, fault-free; its
                # outcome is not judged here): a setter that forgets to write the mode is invisible otherwise
                other = modes[(case["mode_slot"] + 1 + (p % max(1, len(modes) - 1))) % len(modes)]
                if other != m:
                    world.net.begin_script([], {"k": "ok"})
                    try:
                        await inv.set_operation_mode(other, 50, 50)
                    except Exception:  # noqa
                        pass
            prior = prior_bytes(case["prior"], v2, rnd)
            if not v2 and case["prior"] not in ("off", "charge247", "discharge247", "garbage", "zeros"):
                prior = prior_bytes("rand", v2, rnd)
            setg(0, prior)
            for i in (1, 2, 3):   # groups 2-4 switched ON beforehand, with schedules of every type
                if v2:
                    kind_i = rnd.choice(["charge247", "discharge247", "type1_on", "type3_on", "type4_on", "t745_on",
                                         "winter_months"])
                else:
                    kind_i = "charge247" if i % 2 else "discharge247"
                setg(i, prior_bytes(kind_i, v2, rnd))
            if case.get("reject") is not None:
                # one request inside the setter's sequence is answered by a Modbus exception (peer busy / illegal
                # value): the setter must either raise or, if it reports success, the mode must really be set
                j, code = case["reject"]
                world.net.begin_script([{"k": "ok"}] * j + [{"k": "exc", "code": code}], {"k": "ok"})
            elif case.get("lose") is not None:
                # one request inside the setter's sequence gets no answer at all (retries=1: two transmissions lost):
                # the setter must raise - or, if it reports success, everything must really be set
                world.net.begin_script([{"k": "ok"}] * case["lose"] + [{"k": "drop"}] * 2, {"k": "ok"})
            else:
                world.net.begin_script([], {"k": "ok"})
            what = f"{fam}/{var}/{tr} prior group1={case['prior']} set_operation_mode({m.name}, {p}, {s})"
            # applications pass the mode as the enum member or as its plain integer value (both compare equal)
            marg = int(m) if (p + s) % 3 == 1 else m
            rec = await C.do_call(world, "set", lambda: inv.set_operation_mode(marg, p, s))
            world.net.begin_script([], {"k": "ok"})
            if rec["outcome"] != "result":
                stats["vacuous"] += 1
                if rec["outcome"] in ("failed", "maxretries") and case.get("reject") is None and case.get("lose") is None:
                    add(f"C19:{m.name}:setter-failed-fault-free", f"{what} raised {rec.get('exc')!r} although the peer "
                        f"answered every request with a conforming frame")
                if rec["outcome"].startswith("other:") and rec["outcome"] != "other:ValueError":
                    add(f"C19:{m.name}:setter-exception:{rec['outcome'][6:]}", f"{what} raised {rec.get('exc')!r}")
                continue
            stats["round_trips"] += 1
            sigs.append((fam, var, tr, m.name, case["prior"], p, s))
            g1 = getg(0)
            ref1 = decode(g1)
            got = await C.do_call(world, "get", inv.get_operation_mode)
            if got["outcome"] != "result":
                if m == gw.OperationMode.ECO and ref1 is R.NOVALUE and got["outcome"] == "other:ValueError":
                    add("C19:ECO:group1-undecodable", f"{what}: get_operation_mode raised {got.get('exc')!r} (group 1 "
                        f"holds {g1.hex()})")
                else:
                    add(f"C19:{m.name}:getter-failed:{got['outcome']}", f"{what}: get_operation_mode -> {got.get('exc')!r}")
                continue
            if got["value"] != m:
                if m == gw.OperationMode.ECO and is_247(ref1) and got["value"] in (gw.OperationMode.ECO_CHARGE,
                                                                                 gw.OperationMode.ECO_DISCHARGE):
                    add("C19:ECO:group1-holds-24/7-pattern", f"{what}: get_operation_mode returned {got['value']!r} "
                        f"because group 1 still holds the 24/7 pattern {g1.hex()}")
                else:
                    add(f"C19:{m.name}:getter-mismatch", f"{what}: get_operation_mode returned {got['value']!r} "
                        f"(group 1 now {g1.hex()})")
                continue
            if emulated:
                want = -p if m == gw.OperationMode.ECO_CHARGE else p
                if ref1 is R.NOVALUE:
                    add(f"C19:{m.name}:group1-undecodable-after", f"{what}: group 1 now holds {g1.hex()}, which does not decode")
                    continue
                if v2 and ref1["schedule_type"] not in (0, 6):
                    # group 1 has to be an ECO MODE group (type 0, or 6 on the 745 platform): a 24/7 enabled group of
                    # another schedule type (dry contact, peak shaving, backup, smart charge) is not the requested mode
                    add(f"C19:{m.name}:group1-not-eco-type", f"{what}: group 1 {g1.hex()} is written with schedule type "
                        f"{ref1['schedule_type']}, not as an eco mode group")
                human = R.schedule_power_human(ref1["schedule_type"], ref1["power"]) if v2 else ref1["power"]
                if human != want:
                    add(f"C19:{m.name}:power", f"{what}: group 1 {g1.hex()} decodes to power {human}, requested {want}")
                if v2 and ref1["soc"] != s:
                    # 'decodes to the requested power and SoC' is stated for both emulated modes
                    fixed = ":always-100" if m == gw.OperationMode.ECO_DISCHARGE and ref1["soc"] == 100 else ""
                    add(f"C19:{m.name}:soc{fixed}", f"{what}: group 1 {g1.hex()} decodes to SoC {ref1['soc']}, requested {s}")
                if not v2 and s != 100:
                    add(f"C19:{m.name}:soc:8-byte-group-has-no-soc",
                        f"{what}: group 1 {g1.hex()} is an 8-byte group without a SoC field; the requested SoC {s} is dropped")
                if not is_247(ref1):
                    add(f"C19:{m.name}:not-24/7", f"{what}: group 1 {g1.hex()} is not an all-day, every-day, enabled group")
                for i in (1, 2, 3):
                    g = getg(i)
                    on_off = R.s(g[4:5]) if v2 else R.s(g[6:7])
                    if on_off < 0:
                        add(f"C19:{m.name}:others-not-off", f"{what}: group {i + 1} still switched on ({g.hex()})")
                        break

    status, _ = C.run_world(world, main())
    if status != "ok":
        violations.append(viol(f"C19:hang:{fam}", f"did not terminate: {status}"))
    world.events = []
    world.log("summary", fam, var, tr, case["mode_slot"], case["prior"], stats["round_trips"], stats["vacuous"], sorted(keys))
    if not sigs:
        sigs = [(fam, var, tr, case["mode_slot"], case["prior"], "none")]
    return C.package(world, case, violations, sigs[0], stats["round_trips"] > 0, stats, sigs=sigs)


EXPORT_FAMS = [("ET", None), ("DT", "9010KDTU000W0001"), ("DT", "93000DSN000W0001"), ("ES", None)]


def run_export(case):
    goodwe, gp, ge = C.goodwe_mods()
    fam, serial = EXPORT_FAMS[case["fam"]]
    tr = "udp" if case["chunk"] % 2 == 0 or fam == "ES" else "tcp"
    world = World(max_steps=3_000_000)
    if fam == "ET":
        dev = devices.make_et(fill="zero", comm_addr=None, restrict=False)
        inv = goodwe.ET(C.HOST, C.port_of(tr), 0, 1, 1)
    elif fam == "DT":
        dev = devices.make_dt(serial=serial, fill="zero", comm_addr=None, restrict=False)
        inv = goodwe.DT(C.HOST, C.port_of(tr), 0, 1, 1)
    else:
        dev = devices.make_es(fill="zero", runtime=bytes(142), settings=bytes(86))
        inv = goodwe.ES(C.HOST, C.port_of(tr), 0, 1, 1)
    world.net.add_device(C.HOST, C.port_of(tr), dev)
    world.events = _Quiet()
    violations = []
    n = {"rt": 0}
    stride = case["stride"]
    base = case["chunk"] * 256 * stride
    vals = [v for v in (base + i * stride + (case["seed"] + i) % stride for i in range(256)) if v <= 65535]
    if case["chunk"] == 0:
        vals = sorted(set(vals + [0, 1, 2, 255, 256, 32767, 32768, 65534, 10000, 65535]))
    sigs = []

    async def main():
        await inv.read_device_info()
        for v in vals:
            r1 = await C.do_call(world, "set", lambda: inv.set_grid_export_limit(v))
            if r1["outcome"] != "result":
                if r1["outcome"].startswith("other:"):
                    violations.append(viol(f"C19:export:{fam}:setter-exception", f"set_grid_export_limit({v}) raised {r1.get('exc')!r}"))
                    return
                continue
            r2 = await C.do_call(world, "get", inv.get_grid_export_limit)
            n["rt"] += 1
            sigs.append((fam, serial, v))
            if r2["outcome"] != "result" or r2["value"] != v:
                if v == 65535 and r2["outcome"] == "result" and r2["value"] == 0:
                    # the all-ones word is the reading's 'no value' sentinel (C17's known finding, seen through the getter)
                    violations.append(viol(f"C19:export:{fam}:all-ones-reads-as-0", f"{fam} {serial or ''} "
                                           f"set_grid_export_limit(65535) then get_grid_export_limit() -> 0"))
                    continue
                violations.append(viol(f"C19:export:{fam}", f"{fam} {serial or ''} set_grid_export_limit({v}) then "
                                       f"get_grid_export_limit() -> {r2.get('value', r2.get('exc'))!r}"))
                return

    status, _ = C.run_world(world, main())
    if status != "ok":
        violations.append(viol(f"C19:hang:{fam}", f"did not terminate: {status}"))
    world.events = []
    world.log("summary", "export", fam, serial, case["chunk"], n["rt"], len(violations))
    return C.package(world, case, violations, ("export", fam, serial, case["chunk"]), True, {"export_round_trips": n["rt"]},
                     sigs=sigs or [("export", fam, case["chunk"])])


def run_dod(case):
    goodwe, gp, ge = C.goodwe_mods()
    rnd = random.Random(case["seed"])
    fam, var, tr, dev, inv, v2, bases = build(goodwe, case["config"], 7)
    world = World(max_steps=3_000_000)
    world.net.add_device(C.HOST, C.port_of(tr), dev)
    world.events = _Quiet()
    violations = []
    n = {"rt": 0}

    async def main():
        if var != "v1_noinfo":
            await inv.read_device_info()
        for d in range(0, 101):
            r1 = await C.do_call(world, "set", lambda: inv.set_ongrid_battery_dod(d))
            if r1["outcome"] != "result":
                violations.append(viol(f"C19:dod:{fam}:setter", f"set_ongrid_battery_dod({d}) -> {r1.get('exc')!r}"))
                return
            r2 = await C.do_call(world, "get", inv.get_ongrid_battery_dod)
            n["rt"] += 1
            if r2["outcome"] != "result" or r2["value"] != d:
                violations.append(viol(f"C19:dod:{fam}", f"{fam}/{var} set_ongrid_battery_dod({d}) then get -> "
                                       f"{r2.get('value', r2.get('exc'))!r}"))
                return

    status, _ = C.run_world(world, main())
    if status != "ok":
        violations.append(viol(f"C19:hang:{fam}", f"did not terminate: {status}"))
    world.events = []
    world.log("summary", "dod", fam, var, n["rt"], len(violations))
    return C.package(world, case, violations, ("dod", fam, var, tr), True, {"dod_round_trips": n["rt"]})


class _Quiet(list):
    def append(self, x):
        pass
