"""Polling engine shared by C11/C12/C13/C16: a client polls a simulated inverter whose register contents evolve
between polls; oracles compare every returned value with the reference decode of the sensor's own bytes in the
device's register file."""
from __future__ import annotations

import math
from fractions import Fraction

from sim.net import World, DEFAULT_LATENCY
from sim import refdecode as R
from . import common as C
from . import devices

ET_VARIANTS = {
    "small": ("9010KETU000W0001", 10000, ("battery", "eco_v2", "peak_shaving")),
    "big": ("9025KETT000W0001", 29900, devices.ALL_ET_CAPS),
    "single": ("95000EHU000W0001", 5000, ("battery", "eco_v2")),
    "mppt4": ("96000HSB000W0001", 6000, ("battery", "eco_v2", "peak_shaving", "meter_ext", "meter_ext2", "mppt")),
    "mid": ("9015KETU000W0001", 15000, ("battery", "meter_ext", "mppt", "eco_v2", "peak_shaving")),
}
DT_VARIANTS = {
    "three": ("9010KDTU000W0001", True),
    "single3": ("95000MSU000W0001", True),
    "single": ("93000DSN000W0001", True),
    "nometer": ("9010KDTU000W0001", False),
}
ES_VARIANTS = {
    "esu": ("95048ESU000W0001", "2525B"),
    "emu_old": ("95048EMU000W0001", "04046"),
    "esu_v2": ("95048ESU000W0001", "2525E"),   # firmware with the 12-byte eco schedules (read over Modbus)
}
ES_RUNTIME_LEN = 150
ES_SETTINGS_LEN = 90
CONFIGS = ([("ET", v, t) for v in ET_VARIANTS for t in ("udp", "tcp")] +
           [("DT", v, t) for v in DT_VARIANTS for t in ("udp", "tcp")] +
           [("ES", v, "udp") for v in ES_VARIANTS])


def build(goodwe, family, variant, transport, seed, fill):
    """-> (device, inverter object)"""
    port = C.port_of(transport)
    if family == "ET":
        serial, power, caps = ET_VARIANTS[variant]
        dev = devices.make_et(serial=serial, rated_power=power, caps=caps, seed=seed, fill=fill, comm_addr=None,
                              battery_mode=None)
        inv = goodwe.ET(C.HOST, port, 0, 1, 1)
    elif family == "DT":
        serial, meter = DT_VARIANTS[variant]
        dev = devices.make_dt(serial=serial, meter=meter, seed=seed, fill=fill, comm_addr=None)
        inv = goodwe.DT(C.HOST, port, 0, 1, 1)
    else:
        serial, fw = ES_VARIANTS[variant]
        dev = devices.make_es(serial=serial, firmware=fw, seed=seed, fill=fill, eco_v2_modbus=(variant == "esu_v2"))
        if variant == "esu_v2":
            dev.comm_addr = None
        dev.blocks[0x0106] = lambda tx, dev=dev: es_block(dev, 0x0106)
        dev.settings_block = None
        dev.blocks[0x0109] = lambda tx, dev=dev: es_block(dev, 0x0109)
        inv = goodwe.ES(C.HOST, port, 0, 1, 1)
    return dev, inv


def es_block(dev, cmd):
    n = getattr(dev, "es_runtime_len", ES_RUNTIME_LEN) if cmd == 0x0106 else getattr(dev, "es_settings_len", ES_SETTINGS_LEN)
    base = 200000 if cmd == 0x0106 else 300000
    if dev.fill == "step":
        return bytes(dev.step_byte(base + j) for j in range(n))
    out = bytearray()
    for j in range(0, n + 1, 2):
        w = dev.default_word(base + j // 2)
        out += bytes((w >> 8, w & 0xFF))
    return bytes(out[:n])


def own_bytes(dev, family, sensor, width, table="runtime"):
    off = sensor.offset
    if family == "ES" and table == "runtime":
        return es_block(dev, 0x0106)[off:off + width]
    if family == "ES" and table == "settings" and off < 30000 and width <= 4 and type(sensor).__name__ not in (
            "EcoModeV1", "ByteH"):
        return es_block(dev, 0x0109)[off:off + width]
    n = (width + 1) // 2
    return dev.get_bytes(off, n)[:width]


def reg_bytes(dev, family, addr, nbytes):
    """Raw bytes at a register address (Modbus families) or byte offset (ES runtime block)."""
    if family == "ES":
        return es_block(dev, 0x0106)[addr:addr + nbytes]
    return dev.get_bytes(addr, (nbytes + 1) // 2)[:nbytes]


LABEL_CLASSES = ("Enum", "EnumH", "EnumL", "Enum2", "EnumBitmap4", "EnumBitmap22")


def labels_of(sn):
    """The label table of a label sensor (specification data of the library's tables).  Looked up by its usual
    private name first, then structurally (a dict attribute with integer keys), so that a rename does not blind or
    crash the oracle; None if the sensor has no such table."""
    lab = getattr(sn, "_labels", None)
    if isinstance(lab, dict):
        return lab
    for v in vars(sn).values():
        if isinstance(v, dict) and v and all(isinstance(k, int) for k in v):
            return v
    return None


def expected_plain(dev, family, sensors):
    """id -> reference value for all table sensors whose class has a documented own-bytes decoding."""
    exp = {}
    for sn in sensors:
        cls = type(sn).__name__
        if cls not in R.WIDTH:
            continue
        w = R.WIDTH[cls]
        b = own_bytes(dev, family, sn, w)
        if len(b) < w:
            exp[sn.id_] = ("short", cls)
            continue
        labels = labels_of(sn)
        if cls in LABEL_CLASSES and labels is None:
            continue   # no table found on the definition object: nothing to compare with
        exp[sn.id_] = (R.decode(cls, b, scale=getattr(sn, "scale", None), labels=labels), cls)
    return exp


# ------------------------------------------------------------------ C13 derived values

def _v10(b):
    x = R.u(b)
    return Fraction(x, 10) if x != 0xFFFF else Fraction(0)


def _u2z(b):
    x = R.u(b)
    return 0 if x == 0xFFFF else x


def _u4z(b):
    x = R.u(b)
    return 0 if x == 0xFFFFFFFF else x


def grid_mode(v):
    if v < -90:
        return 2
    if v >= 90:
        return 1
    return 0


class Approx:
    """round(x) with the last rounding step free: |lib - x| <= 0.5 + 1e-9"""

    def __init__(self, x, terms=1):
        self.x = x
        self.terms = terms

    def ok(self, lib):
        if lib is None or isinstance(lib, (str, bool)):
            return False
        return abs(Fraction(lib) - self.x) <= Fraction(self.terms, 2) + Fraction(1, 10 ** 9)


def pair_expectations(sensors, data):
    """'<x>_label' is the table lookup of the code '<x>' OF THE SAME RESULT, whatever class implements it.
    -> {label id: expected text} for plain enumerations; bitmap labels are checked from the registers elsewhere."""
    ids = {sn.id_: sn for sn in sensors}
    out = {}
    for sn in sensors:
        if not sn.id_.endswith("_label"):
            continue
        base = sn.id_[:-6]
        labels = labels_of(sn)
        if labels is None or base not in ids or base not in data or sn.id_ not in data:
            continue
        if type(sn).__name__.startswith("EnumBitmap") or type(ids[base]).__name__ in ("Long",):
            continue
        code = data[base]
        out[sn.id_] = labels.get(code) if code is not None else labels.get(0)
    # 4-byte bitmaps: the label lists the set bits of the 32-bit code reported IN THE SAME RESULT by the Long sensor that
    # is defined over the same registers (errors / error_codes, diagnose_result_label / diagnose_result)
    for sn in sensors:
        if type(sn).__name__ != "EnumBitmap4" or sn.id_ not in data:
            continue
        labels = labels_of(sn)
        base = next((x for x in sensors if type(x).__name__ == "Long" and x.offset == sn.offset), None)
        if labels is None or base is None or base.id_ not in data or not isinstance(data[base.id_], int):
            continue
        out[sn.id_] = ("bitmap", base.id_, R.decode_bitmap(data[base.id_] & 0xFFFFFFFF, labels))
    return out


def derived_expectations(dev, family, sensors, goodwe_const, alts=None):
    """id -> expected (exact value | Approx | str) for label/bitmap/calculated sensors, from the registers.
    Totals are the sum of the parts PRESENT in the result ('ppv = sum of ppvN'); `alts` receives, per id, the value a
    total has when the registers of strings the model does not have (their ppvN are not listed) are added as well."""
    if alts is None:
        alts = {}
    def rb(addr, n):
        return reg_bytes(dev, family, addr, n)
    ids = {sn.id_: sn for sn in sensors}
    exp = {}
    # label pairs: <x>_label is the table lookup of the code <x>
    for sn in sensors:
        cls = type(sn).__name__
        if sn.id_.endswith("_label") and cls in ("Enum", "EnumH", "EnumL", "Enum2"):
            labels = labels_of(sn)
            if labels is None:
                continue
            base = ids.get(sn.id_[:-6])
            w = R.WIDTH[cls]
            b = own_bytes(dev, family, sn, w)
            exp[sn.id_] = R.decode(cls, b, labels=labels, enum_signed=True)   # C13: lookup of the code as reported
        elif cls == "EnumBitmap4":
            labels = labels_of(sn)
            if labels is not None:
                exp[sn.id_] = R.decode(cls, own_bytes(dev, family, sn, 4), labels=labels)
        elif cls == "EnumBitmap22":
            labels = labels_of(sn)
            lo_off = getattr(sn, "_offsetL", None)
            if labels is not None and lo_off is not None:
                exp[sn.id_] = R.bitmap22(rb(sn.offset, 2), rb(lo_off, 2), labels)
    if family == "ET":
        p_all = [_u4z(rb(a, 4)) for a in (35105, 35109, 35113, 35117)]
        p = [x for i, x in enumerate(p_all) if f"ppv{i + 1}" in ids]
        hidden = len(p) < len(p_all)
        if "ppv" in ids:
            exp["ppv"] = sum(p)
            if hidden:
                alts["ppv"] = (sum(p_all), "hidden-strings")
        ap = R.s(rb(35140, 2))
        if "grid_in_out" in ids:
            exp["grid_in_out"] = grid_mode(ap)
        if "grid_in_out_label" in ids:
            exp["grid_in_out_label"] = goodwe_const.GRID_IN_OUT_MODES.get(grid_mode(ap))
        if "house_consumption" in ids:
            exp["house_consumption"] = sum(p) + R.s(rb(35182, 4)) - ap
            if hidden:
                alts["house_consumption"] = (sum(p_all) + R.s(rb(35182, 4)) - ap, "hidden-strings")
    elif family == "DT":
        def prod(va, ia):
            return _v10(rb(va, 2)) * _v10(rb(ia, 2))
        pv = [prod(30103, 30104), prod(30105, 30106), prod(30107, 30108)]
        for i, name in enumerate(("ppv1", "ppv2", "ppv3")):
            if name in ids:
                exp[name] = Approx(pv[i])
        if "ppv" in ids:
            present = [x for i, x in enumerate(pv) if f"ppv{i + 1}" in ids]
            exp["ppv"] = Approx(sum(present), max(1, len(present)))
            if len(present) < len(pv):
                alts["ppv"] = (Approx(sum(pv), 3), "hidden-strings")
        for i, (va, ia) in enumerate(((30118, 30121), (30119, 30122), (30120, 30123))):
            if f"pgrid{i + 1}" in ids:
                exp[f"pgrid{i + 1}"] = Approx(prod(va, ia))
    else:
        def prod(va, ia):
            return _v10(rb(va, 2)) * _v10(rb(ia, 2))
        p1, p2 = prod(0, 2), prod(5, 7)
        bm = R.s(rb(30, 1))
        sign_b = -1 if bm == 3 else 1
        gio = R.s(rb(80, 1))
        sign_g = -1 if gio == 2 else 1
        exp["ppv1"] = Approx(p1)
        exp["ppv2"] = Approx(p2)
        exp["ppv"] = Approx(p1 + p2, 2)
        exp["ibattery1"] = abs(_v10(rb(18, 2))) * sign_b
        pb = prod(10, 18)
        exp["pbattery1"] = ApproxSigned(abs(pb), sign_b)
        pg = abs(R.s(rb(38, 2))) * sign_g
        exp["pgrid"] = pg
        exp["plant_power"] = _u2z(rb(47, 2)) + _u2z(rb(81, 2))
        exp["house_consumption"] = ApproxSum([(p1, 1), (p2, 1), (abs(pb), sign_b)], -pg)
    return exp


class ApproxSigned(Approx):
    def __init__(self, mag, sign):
        self.mag, self.sign = mag, sign

    def ok(self, lib):
        if lib is None or isinstance(lib, (str, bool)):
            return False
        return abs(Fraction(lib) * self.sign - self.mag) <= Fraction(1, 2) + Fraction(1, 10 ** 9)


class ApproxSum(Approx):
    def __init__(self, terms, const):
        self.terms, self.const = terms, const

    def ok(self, lib):
        if lib is None or isinstance(lib, (str, bool)):
            return False
        x = sum(m * s for m, s in self.terms) + self.const
        return abs(Fraction(lib) - x) <= Fraction(len(self.terms), 2) + Fraction(1, 10 ** 9)


def match_derived(lib, ref):
    if isinstance(ref, Approx):
        return ref.ok(lib)
    if isinstance(ref, Fraction):
        return R.same(lib, ref)
    if isinstance(ref, int) and not isinstance(ref, bool):
        return lib == ref and not isinstance(lib, bool)
    return lib == ref
