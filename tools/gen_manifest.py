#!/venv/bin/python
"""Generate MANIFEST.json from props/*.py (a check is listed iff its module exists and defines MANIFEST_TEXT)."""
import importlib
import json
import os
import sys

ROOT = os.path.dirname(os.path.dirname(os.path.abspath(__file__)))
sys.path.insert(0, ROOT)
os.environ.setdefault("PYTHONHASHSEED", "0")

ALL = ["C%02d" % i for i in range(1, 21)]
SECTION = {p: "6/" + p for p in ALL}


def main():
    checks = []
    na = []
    for pid in ALL:
        path = os.path.join(ROOT, "props", pid.lower() + ".py")
        if not os.path.exists(path):
            na.append({"property_id": pid, "reason": "check not built yet (work in progress; see DESIGN.md 6/%s for the plan)" % pid})
            continue
        src = open(path).read()
        ns = {}
        # read the few constants without importing goodwe
        for name in ("LEVEL", "LEVEL_TEXT", "LEVEL_NOTE", "TECHNIQUE"):
            pass
        mod = importlib.import_module("props." + pid.lower())
        checks.append({
            "property_id": pid,
            "quick_cmd": f"/venv/bin/python check.py {pid} --tier quick",
            "thorough_cmd": f"/venv/bin/python check.py {pid} --tier thorough",
            "evidence_file": f"evidence/{pid}.json",
            "replay_cmd_template": f"/venv/bin/python check.py {pid} --replay {{path}}",
            "engine": "simloop",
            "level_claimed": {"category": mod.LEVEL, "text": mod.LEVEL_TEXT, "design_ref": "DESIGN.md 6/" + pid},
            "level_note": mod.LEVEL_NOTE,
            "technique": mod.TECHNIQUE,
        })
    manifest = {
        "version": 1,
        "setup_cmd": "/venv/bin/python selftest.py --setup",
        "hooks": {
            "guard": "GOODWE_VERIF",
            "enable": "no hooks exist: the simulator replaces the running asyncio event loop, which the library "
                      "obtains through asyncio.get_running_loop(); GOODWE_VERIF is reserved and unused",
            "baseline_off_cmd": "cd /repo && /venv/bin/python -m pytest -q -p no:cacheprovider --timeout=900",
            "source_commits": [],
            "add_only": True,
        },
        "engines": [{
            "name": "simloop",
            "path": "sim/",
            "serves_properties": [c["property_id"] for c in checks],
            "kind_free_text": "deterministic simulation: asyncio.BaseEventLoop subclass with virtual clock and no "
                              "selector, fake UDP/TCP transports, SimNet fault layer driven by a seeded plan, "
                              "SimInverter register-file peer with independent codec; fork-per-run isolation; "
                              "ddmin plan minimisation; replay = run(plan)",
        }],
        "checks": checks,
        "notes": "All checks: /venv/bin/python check.py <ID> --tier quick|thorough; VERIF_SEED honoured; exit 0/1/2 "
                 "(2 = harness error). Known findings: known_findings.json. Seeded mutants: seeded/.",
        "not_applicable": na,
    }
    with open(os.path.join(ROOT, "MANIFEST.json"), "w") as f:
        json.dump(manifest, f, indent=1)
    print("checks:", [c["property_id"] for c in checks], "pending:", [n["property_id"] for n in na])


if __name__ == "__main__":
    sys.path.insert(0, "/repo")
    main()
