#!/bin/bash
# usage: tools/trymut.sh <patch> <ID> [extra check.py args]   -- run check ID against /repo + patch in a scratch copy
set -e
P=$(realpath "$1"); ID=$2; shift 2
T=$(mktemp -d /tmp/goodwe-mut-XXXXXX)
trap 'rm -rf "$T"' EXIT
mkdir -p $T/repo && cp -r /repo/goodwe $T/repo/ && cp -r /repo/tests $T/repo/ 2>/dev/null || true
( cd $T/repo && git init -q . 2>/dev/null; git apply --whitespace=nowarn "$P" ) || { echo "PATCH FAILED"; exit 7; }
cd /verif && /venv/bin/python check.py $ID --src $T/repo --no-evidence "$@" 2>&1 | tail -8
