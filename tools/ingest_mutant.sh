#!/bin/bash
# usage: tools/ingest_mutant.sh <worktree> <MUTANTN dir name> <property> <seeded-id> [checks...]
# verifies (tests pass with patch, demo FAIL with / PASS without), copies to /verif/seeded/<id>/, runs the checks.
WT=$1; M=$2; PROP=$3; ID=$4; shift 4; CHECKS=${@:-$PROP}
set -u
cd $WT || exit 9
git checkout -q -- goodwe
git apply --check $M/patch.diff || { echo "PATCH DOES NOT APPLY"; exit 9; }
timeout 120 /venv/bin/python $M/demo.py > /tmp/demo_clean.txt 2>&1; RC_CLEAN=$?
git apply $M/patch.diff
TESTS=$(timeout 600 /venv/bin/python -m pytest -q -p no:cacheprovider 2>&1 | tail -1)
timeout 120 /venv/bin/python $M/demo.py > /tmp/demo_mut.txt 2>&1; RC_MUT=$?
git checkout -q -- goodwe
echo "clean demo rc=$RC_CLEAN ($(tail -1 /tmp/demo_clean.txt)) ; mutant demo rc=$RC_MUT ($(tail -1 /tmp/demo_mut.txt)) ; tests: $TESTS"
if [ $RC_CLEAN -ne 0 ] || [ $RC_MUT -ne 1 ] || ! echo "$TESTS" | grep -q "115 passed"; then echo "VERIFICATION FAILED"; exit 8; fi
D=/verif/seeded/$ID; mkdir -p $D
cp $M/patch.diff $D/patch.diff; cp $M/demo.py $D/demo.py; cp $M/notes.md $D/notes.md 2>/dev/null
RES=""
for c in $CHECKS; do
  OUT=$(/verif/tools/trymut.sh $D/patch.diff $c --no-shrink 2>&1 | tail -3)
  if echo "$OUT" | grep -q "VIOLATION property=$c"; then RES="$RES $c:CAUGHT"; else RES="$RES $c:MISSED"; fi
  echo "$OUT" | tail -1
done
echo "RESULT $ID:$RES"
cat > $D/meta.json <<J
{"id": "$ID", "property": "$PROP", "source": "independent sub-agent (saw only the property text and a scratch worktree)",
 "verified": {"tests_with_patch": "$TESTS", "demo_with_patch_exit": $RC_MUT, "demo_without_patch_exit": $RC_CLEAN},
 "ran": "tools/ingest_mutant.sh: git apply patch in a scratch worktree, pytest, demo.py with and without; then check.py <ID> --tier quick --src <scratch copy with patch>",
 "quick_check_results": "$RES"}
J
