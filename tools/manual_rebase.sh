#!/bin/bash
# manual re-port of a seeded change whose hunks no longer apply: $2 is a python script that edits the tree (cwd = worktree)
ID=$1; ED=$2; D=/verif/seeded/$ID
cd /repo && git worktree remove --force /tmp/wt-rebase 2>/dev/null; git worktree add -q --detach /tmp/wt-rebase HEAD || exit 9
cd /tmp/wt-rebase; mkdir -p MUTX; cp $D/demo.py MUTX/demo.py
timeout 300 /venv/bin/python MUTX/demo.py >/dev/null 2>&1; c=$?
/venv/bin/python $ED || { echo "$ID: edit failed"; cd /repo; git worktree remove --force /tmp/wt-rebase; exit 1; }
t=$(timeout 600 /venv/bin/python -m pytest -q -p no:cacheprovider 2>&1 | tail -1)
timeout 300 /venv/bin/python MUTX/demo.py >/dev/null 2>&1; m=$?
if [ $c -eq 0 ] && [ $m -eq 1 ] && echo "$t" | grep -q "115 passed"; then
  git diff -- goodwe > $D/patch.diff
  echo "patch.diff was re-written by hand against the repaired tree (the original hunks no longer applied after later fix: commits; same semantic change, re-verified: tests pass, demo fails with it and passes without it)." > $D/REBASED
  echo "$ID: rebased OK"
else echo "$ID: NOT OK clean=$c mutant=$m tests=$t"; fi
cd /repo; git worktree remove --force /tmp/wt-rebase
