#!/bin/bash
# re-verify every seeded mutant against the CURRENT /repo HEAD: tests pass with patch, demo fails with / passes without
cd /repo && git worktree remove --force /tmp/wt-verify 2>/dev/null; git worktree add -q --detach /tmp/wt-verify HEAD || exit 9
cd /tmp/wt-verify; mkdir -p MUTX
for d in /verif/seeded/[!_]*/; do n=$(basename $d)
  git checkout -q -- goodwe; cp $d/demo.py MUTX/demo.py
  timeout 300 /venv/bin/python MUTX/demo.py >/dev/null 2>&1; c=$?
  if ! git apply --whitespace=nowarn $d/patch.diff >/dev/null 2>&1; then echo "$n PATCH-CONFLICT"; git checkout -q -- goodwe; find . -name '*.rej' -o -name '*.orig' | xargs rm -f; continue; fi
  t=$(timeout 600 /venv/bin/python -m pytest -q -p no:cacheprovider 2>&1 | tail -1)
  timeout 300 /venv/bin/python MUTX/demo.py >/dev/null 2>&1; m=$?
  git checkout -q -- goodwe
  ok=BAD; if [ $c -eq 0 ] && [ $m -eq 1 ] && echo "$t" | grep -q "115 passed"; then ok=OK; fi
  echo "$n demo(clean)=$c demo(mutant)=$m tests='$t' => $ok"
done
cd /repo && git worktree remove --force /tmp/wt-verify
