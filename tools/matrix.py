#!/venv/bin/python
"""Run every seeded mutant against its property's quick check (and the extra checks listed in EXTRA) and record the
result in seeded/<id>/meta.json (caught_by / missed_by)."""
import glob, json, os, subprocess, sys
ROOT = os.path.dirname(os.path.dirname(os.path.abspath(__file__)))
EXTRA = {"c01-frag-result-last-datagram": ["C07"], "c08-r3-fragment-glue-le": ["C07"],
         "c05-udp-oserror-retry-unbounded": ["C04"],
         "c14-battery2-mapped-after-refusal": ["C15"], "c12-enuml-ffff-to-zero": ["C13"],
         "c09-tcp-duplicate-exception-frame": ["C04"], "c02-aa55-checksum-overflow": ["C04", "C01"],
         "c12-r3-battery2-mapped-after-refusal": ["C14", "C15"], "c17-r2-dt-class-level-settings-map": ["C20"],
         "c03-r3-class-level-read-command-cache": ["C20"], "c10-r2-tcp-orphaned-timer-after-fragment": ["C05"],
         "c07-r2-fragment-timer-handle-dropped": ["C05"], "c06-r2-rtu-short-guard-7": ["C07"], "c12-r7-meter-fallback-wrong-filter": ["C14"],
         "c12-r8-battery-map-after-try": ["C14"], "c14-r8-read-sensor-fallback-running-only": ["C16"],
         "c16-r8-meter-fallback-wrong-filter": ["C14"], "c05-r8-partial-timer-only-if-none": ["C04"],
         "c08-r8-udp-reject-keeps-socket": ["C15"],
         "c02-r8-udp-lock-acquire-inside-try": ["C06"], "c07-r8-tcp-lock-acquire-inside-try": ["C06"],
         "c01-r9-tcp-glue-any-segment": ["C07"], "c08-r9-loop-change-undetected-open-loop": ["C10"],
         "c08-r9-tcp-noka-always-reconnects": ["C10"], "c10-r9-tcp-noka-close-on-success-only": ["C08"],
         "c02-r10-udp-skip-to-aa55-in-continuation": ["C07"], "c04-r10-connect-retries-zero-becomes-three": ["C05"],
         "c05-r10-tcp-deadline-includes-connect": ["C04"], "c12-r10-bytel-skip-moved-to-read": ["C16"],
         "c16-r10-dt-sensors-extends-in-place": ["C14"], "c17-r9-udp-queued-inherits-socket": ["C10"],
         "c05-r11-udp-noka-close-via-public-close": ["C10"], "c11-r11-es-settings-outside-by-prefix": ["C12"],
         "c12-r11-battery-map-after-try": ["C14"], "c12-r11-map-response-try-hoisted": ["C15"],
         "c20-r11-tx-wrap-modulus-off-by-one": ["C03"], "c11-r11-read-sensor-keyerror": ["C16"],
         "c04-r12-cancelling-count-sticky": ["C05"], "c04-r12-retry-counter-on-command": ["C20"],
         "c06-r12-icmp-keeps-socket-and-timer-not-cancelled": ["C05"], "c11-r12-lazy-days-months": ["C12"],
         "c12-r12-map-after-try": ["C14"], "c02-r13-aa55-response-type-derived": ["C19"],
         "c07-r13-close-waits-one-timeout-only": ["C06"], "c01-r13-rtu-exception-before-crc": ["C09"],
         "c02-r14-len-falsy-empty-payload": ["C11"], "c04-r14-discover-retries-zero-after-failed-probe": ["C05"],
         "c06-r14-probe-patches-shared-retries": ["C17"], "c12-r15-battery-map-after-try": ["C14"]}
only = sys.argv[1:]
for d in sorted(glob.glob(os.path.join(ROOT, "seeded", "[!_]*"))):
    name = os.path.basename(d)
    if only and name not in only:
        continue
    mp = os.path.join(d, "meta.json")
    meta = json.load(open(mp))
    checks = [meta["property"]] + EXTRA.get(name, [])
    caught, missed = [], []
    for c in checks:
        p = subprocess.run([os.path.join(ROOT, "tools", "trymut.sh"), os.path.join(d, "patch.diff"), c, "--no-shrink"],
                           capture_output=True, text=True, timeout=3600)
        out = p.stdout
        if "PATCH FAILED" in out:
            print(name, c, "PATCH FAILED"); missed.append(c + ":patch-failed"); continue
        keys = sorted({l.strip().split(":  ")[0] for l in out.splitlines() if l.startswith("  C")})
        if "VIOLATION property=" + c in out:
            caught.append(c)
        else:
            missed.append(c)
        print(name, c, "CAUGHT" if c in caught else "MISSED")
    meta["caught_by"] = caught
    meta["missed_by"] = missed
    meta["rebased"] = os.path.exists(os.path.join(d, "REBASED"))
    json.dump(meta, open(mp, "w"), indent=1)
