#!/bin/bash
# re-generate seeded/<id>/patch.diff against the current /repo HEAD (context lines drift when fix: commits land);
# accepted only if tests pass and the mutant's own demo still FAILS with the patch and PASSES without it.
ID=$1; D=/verif/seeded/$ID
cd /repo && git worktree remove --force /tmp/wt-rebase 2>/dev/null; git worktree add -q --detach /tmp/wt-rebase HEAD || exit 9
cd /tmp/wt-rebase; mkdir -p MUTX; cp $D/demo.py MUTX/demo.py
timeout 300 /venv/bin/python MUTX/demo.py >/dev/null 2>&1; c=$?
patch -p1 --fuzz=3 -s < $D/patch.diff || { echo "$ID: patch failed even with fuzz"; cd /repo; git worktree remove --force /tmp/wt-rebase; exit 1; }
find . -name '*.orig' -delete
t=$(timeout 600 /venv/bin/python -m pytest -q -p no:cacheprovider 2>&1 | tail -1)
timeout 300 /venv/bin/python MUTX/demo.py >/dev/null 2>&1; m=$?
if [ $c -eq 0 ] && [ $m -eq 1 ] && echo "$t" | grep -q "115 passed"; then
  git diff -- goodwe > $D/patch.diff
  echo "patch.diff was re-generated against the repaired tree (context lines had drifted after later fix: commits; same change, re-verified: tests pass, demo fails with it and passes without it)." > $D/REBASED
  echo "$ID: rebased OK"
else echo "$ID: NOT OK clean=$c mutant=$m tests=$t"; fi
cd /repo; git worktree remove --force /tmp/wt-rebase
