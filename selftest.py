#!/venv/bin/python
"""selftest.py --setup | --determinism [N] | --mutants [ID ...]

--setup        offline sanity: imports, goodwe resolves to /repo, a short determinism test (exit 0/2)
--determinism  N seeds x 2 executions in different children, at two worker counts, plus a fresh interpreter
               under another PYTHONHASHSEED; all digests must agree
--silence      apply each refactors/<id>/patch.diff (behaviour-preserving refactorings) and expect every check at exit 0
--mutants      apply each seeded/<id>/patch.diff to a scratch copy of /repo and expect the listed check to report
               a VIOLATION with --src pointing at the copy
"""
import glob
import importlib
import json
import os
import shutil
import subprocess
import sys
import tempfile

ROOT = os.path.dirname(os.path.abspath(__file__))
sys.path.insert(0, ROOT)
PY = "/venv/bin/python"


def digests(modname, tier, seed, indices, workers, src="/repo"):
    from sim import runner
    pool = runner.Pool(src, modname, tier, seed, workers)
    try:
        out = {}
        for r in pool.map_indices(indices, chunk=7, solo=True):
            if "harness_error" in r:
                raise SystemExit("harness error in determinism test: " + r["harness_error"])
            out[r["index"]] = r["digest"]
        return out
    finally:
        pool.close()


def determinism(n, mods=None):
    from sim import runner
    runner.setup_source("/repo")
    mods = mods or sorted(os.path.basename(p)[:-3] for p in glob.glob(os.path.join(ROOT, "props", "c[0-9][0-9].py")))
    bad = 0
    for m in mods:
        modname = "props." + m
        mod = importlib.import_module(modname)
        total = mod.n_cases("quick")
        step = max(1, total // n)
        idx = list(range(0, total, step))[:n]
        a = digests(modname, "quick", 1, idx, 4)
        b = digests(modname, "quick", 1, idx, 16)
        env = dict(os.environ, PYTHONHASHSEED="12345")
        p = subprocess.run([PY, os.path.abspath(__file__), "--digest-dump", m, str(n)], env=env, capture_output=True,
                           text=True, timeout=1200)
        if p.returncode != 0:
            print(p.stdout, p.stderr)
            raise SystemExit(2)
        c = {int(k): v for k, v in json.loads(p.stdout.strip().splitlines()[-1]).items()}
        mism = [i for i in idx if not (a[i] == b[i] == c[i])]
        print(f"determinism {m}: {len(idx)} cases x 3 executions (4 workers, 16 workers, fresh interpreter with "
              f"PYTHONHASHSEED=12345): {len(mism)} mismatches")
        bad += len(mism)
    return bad


def digest_dump(m, n):
    from sim import runner
    runner.setup_source("/repo")
    modname = "props." + m
    mod = importlib.import_module(modname)
    total = mod.n_cases("quick")
    step = max(1, total // n)
    idx = list(range(0, total, step))[:n]
    print(json.dumps(digests(modname, "quick", 1, idx, 8)))


def mutants(ids):
    failed = 0
    for d in sorted(glob.glob(os.path.join(ROOT, "seeded", "[!_]*"))):
        name = os.path.basename(d)
        if ids and name not in ids:
            continue
        meta = json.load(open(os.path.join(d, "meta.json")))
        tmp = tempfile.mkdtemp(prefix="goodwe-mut-")
        try:
            dst = os.path.join(tmp, "repo")
            shutil.copytree("/repo", dst, ignore=shutil.ignore_patterns(".git", "__pycache__", ".benchmarks"))
            subprocess.run(["git", "init", "-q", "."], cwd=dst, capture_output=True)
            p = subprocess.run(["git", "apply", "--whitespace=nowarn", os.path.join(d, "patch.diff")], cwd=dst,
                               capture_output=True, text=True)
            if p.returncode != 0:
                print(f"{name}: patch does not apply: {p.stdout} {p.stderr}")
                failed += 1
                continue
            for pid in meta.get("caught_by", [meta["property"]]):
                q = subprocess.run([PY, os.path.join(ROOT, "check.py"), pid, "--tier", "quick", "--src", dst,
                                    "--no-evidence", "--no-shrink"], capture_output=True, text=True, timeout=3600)
                caught = q.returncode == 1 and "VIOLATION property=" + pid in q.stdout
                print(f"{name}: {pid} -> exit {q.returncode} {'CAUGHT' if caught else 'MISSED'}")
                if not caught:
                    failed += 1
        finally:
            shutil.rmtree(tmp, ignore_errors=True)
    return failed


def silence(ids):
    """Behaviour-preserving refactorings (refactors/<id>/patch.diff) must leave EVERY check at exit 0."""
    failed = 0
    pids = ["C%02d" % i for i in range(1, 21)]
    for d in sorted(glob.glob(os.path.join(ROOT, "refactors", "[!_]*"))):
        name = os.path.basename(d)
        if ids and name not in ids:
            continue
        tmp = tempfile.mkdtemp(prefix="goodwe-ref-")
        try:
            dst = os.path.join(tmp, "repo")
            shutil.copytree("/repo", dst, ignore=shutil.ignore_patterns(".git", "__pycache__", ".benchmarks"))
            subprocess.run(["git", "init", "-q", "."], cwd=dst, capture_output=True)
            p = subprocess.run(["git", "apply", "--whitespace=nowarn", os.path.join(d, "patch.diff")], cwd=dst,
                               capture_output=True, text=True)
            if p.returncode != 0:
                print(f"{name}: patch does not apply: {p.stderr}")
                failed += 1
                continue
            for pid in pids:
                q = subprocess.run([PY, os.path.join(ROOT, "check.py"), pid, "--tier", "quick", "--src", dst,
                                    "--no-evidence", "--no-shrink"], capture_output=True, text=True, timeout=3600)
                ok = q.returncode == 0
                if not ok:
                    failed += 1
                    print(f"{name}: {pid} -> exit {q.returncode} ALARM")
                    print("   " + "\n   ".join(l for l in q.stdout.splitlines() if l.startswith("  C") or "HARNESS" in l)[:1500])
            print(f"{name}: done")
        finally:
            shutil.rmtree(tmp, ignore_errors=True)
    return failed


def main():
    if os.environ.get("PYTHONHASHSEED") is None:
        os.environ["PYTHONHASHSEED"] = "0"
        os.execv(sys.executable, [sys.executable] + sys.argv)
    a = sys.argv[1:]
    if not a or a[0] == "--setup":
        from sim import runner
        g = runner.setup_source("/repo")
        print("goodwe from", g.__file__)
        import sim.net, sim.device, sim.codec, sim.shrink, sim.findings  # noqa
        bad = determinism(24)
        os.makedirs(os.path.join(ROOT, "evidence"), exist_ok=True)
        os.makedirs(os.path.join(ROOT, "replays"), exist_ok=True)
        sys.exit(2 if bad else 0)
    if a[0] == "--determinism":
        n = int(a[1]) if len(a) > 1 else 2000
        sys.exit(2 if determinism(n, a[2:] or None) else 0)
    if a[0] == "--digest-dump":
        digest_dump(a[1], int(a[2]))
        return
    if a[0] == "--mutants":
        sys.exit(1 if mutants(a[1:]) else 0)
    if a[0] == "--silence":
        sys.exit(1 if silence(a[1:]) else 0)
    print(__doc__)


if __name__ == "__main__":
    main()
