"""Plan minimisation: greedy delta-debugging over the list-valued parts of a case plus module-specific
simplifications, keeping the *same violation key*."""
import copy
import json


def size(case) -> int:
    return len(json.dumps(case, sort_keys=True, default=str))


def _paths(case, prefix=()):
    """Yield paths to every list inside the case."""
    if isinstance(case, dict):
        for k in sorted(case):
            yield from _paths(case[k], prefix + (k,))
    elif isinstance(case, list):
        yield prefix
        for i, v in enumerate(case):
            yield from _paths(v, prefix + (i,))


def _get(case, path):
    for p in path:
        case = case[p]
    return case


def _set(case, path, value):
    c = copy.deepcopy(case)
    tgt = c
    for p in path[:-1]:
        tgt = tgt[p]
    tgt[path[-1]] = value
    return c


def candidates(mod, case):
    """Smaller/simpler variants of a case, most aggressive first."""
    out = []
    simp = getattr(mod, "simplify", None)
    if simp is not None:
        out.extend(simp(case))
    frozen = set(getattr(mod, "SHRINK_FROZEN", ()))
    for path in list(_paths(case)):
        if path and path[0] in frozen:
            continue
        lst = _get(case, path)
        n = len(lst)
        if n == 0:
            continue
        if n > 1:
            out.append(_set(case, path, lst[: n // 2]))
            out.append(_set(case, path, lst[n // 2:]))
        for i in range(n - 1, -1, -1):
            out.append(_set(case, path, lst[:i] + lst[i + 1:]))
        # faults: replace by ok
        if path and path[-1] in ("faults", "connects"):
            for i in range(n - 1, -1, -1):
                if isinstance(lst[i], dict) and lst[i].get("k") != "ok":
                    out.append(_set(case, path, lst[:i] + [{"k": "ok"}] + lst[i + 1:]))
    return out


def minimise(pool, mod, case, key, viol, digest, budget=600):
    best, bviol, bdigest = case, viol, digest
    kc = getattr(mod, "key_class", lambda k: k)
    cls = kc(key)
    spent = 0
    improved = True
    while improved and spent < budget:
        improved = False
        cands = candidates(mod, best)
        seen = set()
        uniq = []
        bs = size(best)
        for c in cands:
            s = json.dumps(c, sort_keys=True, default=str)
            if s in seen or c == best:
                continue
            seen.add(s)
            uniq.append(c)
        uniq.sort(key=size)
        # evaluate in batches; take the smallest that still fails with the same key
        for start in range(0, len(uniq), 64):
            batch = uniq[start:start + 64]
            spent += len(batch)
            results = pool.run_cases(batch)
            hit = None
            for c, r in zip(batch, results):
                if "harness_error" in r:
                    continue
                for v in r["violations"]:
                    if kc(v["key"]) == cls:
                        if size(c) < bs or (size(c) == bs and c != best and getattr(mod, "simpler", lambda a, b: False)(c, best)):
                            hit = (c, v, r["digest"])
                        break
                if hit:
                    break
            if hit:
                best, bviol, bdigest = hit
                improved = True
                break
            if spent >= budget:
                break
    return best, bviol, bdigest
