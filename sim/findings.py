"""known_findings.json: committed, never written at run time.

Entries: {"property": "C05", "key": "<violation signature>", "status": "known"|"fixed", "what": "...", "commit": "..."}
A 'fixed' entry suppresses nothing.
"""
import json
import os


def load(path, pid):
    if not os.path.exists(path):
        return {}
    with open(path) as f:
        data = json.load(f)
    out = {}
    for e in data.get("findings", []):
        if e.get("property") == pid:
            out[e["key"]] = e
    return out
