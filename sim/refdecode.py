"""Reference decoder/encoder: sensor class name -> documented interpretation of the sensor's OWN bytes.

Written from the class docstrings and the statements of C12/C13/C17 with int.from_bytes/struct only.  It takes a
sensor's declared class, offset, scale and labels from the library's tables (the tables are the specification of
WHERE a value lives and what its codes mean); what is checked is that the decode path reads exactly there and
interprets as documented.
"""
from __future__ import annotations

import math
import struct
from datetime import datetime
from fractions import Fraction

NOVALUE = object()   # reference says: undecodable -> bulk None / single ValueError

DAY_NAMES = ["Sun", "Mon", "Tue", "Wed", "Thu", "Fri", "Sat"]
MONTH_NAMES = ["Jan", "Feb", "Mar", "Apr", "May", "Jun", "Jul", "Aug", "Sep", "Oct", "Nov", "Dec"]


def u(b):
    return int.from_bytes(b, "big", signed=False)


def s(b):
    return int.from_bytes(b, "big", signed=True)


# width (bytes actually interpreted) per class; ByteL reads the second byte of its register
WIDTH = {
    "Voltage": 2, "Current": 2, "CurrentS": 2, "Frequency": 2, "Power": 2, "PowerS": 2, "Power4": 4, "Power4S": 4,
    "Energy": 2, "Energy4": 4, "Energy4W": 4, "Energy8": 8, "Apparent": 2, "Apparent4": 4, "Reactive": 2,
    "Reactive4": 4, "Temp": 2, "CellVoltage": 2, "Byte": 1, "ByteH": 1, "ByteL": 2, "Integer": 2, "IntegerS": 2,
    "Long": 4, "LongS": 4, "Decimal": 2, "Float": 4, "Timestamp": 6, "Enum": 1, "EnumH": 1, "EnumL": 2, "Enum2": 2,
    "EnumBitmap4": 4, "EcoModeV1": 8, "EcoModeV2": 12, "Schedule": 12, "PeakShavingMode": 12,
}


def decode_bitmap(value: int, labels: dict) -> str:
    out = []
    for i in range(32):
        if (value >> i) & 1:
            lab = labels.get(i, f"err{i}")
            if lab:
                out.append(lab)
    return ", ".join(out)


def days(bits: int):
    """bits: signed byte.  -1 -> all days; 0 -> none; otherwise bit i -> DAY_NAMES[i] (7 names)."""
    if bits == -1:
        return "Mon-Sun"
    if bits == 0:
        return ""
    if bits < 0 or bits >= 128:
        return NOVALUE
    return ",".join(DAY_NAMES[i] for i in range(7) if (bits >> i) & 1)


def months(bits: int):
    if bits <= 0 or bits == 0x0FFF:
        return None
    if bits >= 0x1000:
        return NOVALUE
    return ",".join(MONTH_NAMES[i] for i in range(12) if (bits >> i) & 1)


SCHEDULE_TYPE_OF = {0: 0, -1: 0, 1: 1, -2: 1, 2: 2, -3: 2, 3: 3, -4: 3, 4: 4, -5: 4, 5: 5, -6: 5, 6: 6, -7: 6, 85: 85}


def decode_eco_v1(b: bytes):
    sh, sm, eh, em = s(b[0:1]), s(b[1:2]), s(b[2:3]), s(b[3:4])
    if not ((0 <= sh <= 23) or sh == 48) or not (0 <= sm <= 59) or not ((0 <= eh <= 23) or eh == 48) or not (0 <= em <= 59):
        return NOVALUE
    power = s(b[4:6])
    if not -100 <= power <= 100:
        return NOVALUE
    on_off = s(b[6:7])
    if on_off not in (0, -1):
        return NOVALUE
    db = s(b[7:8])
    d = days(db)
    if d is NOVALUE:
        return NOVALUE
    return {"start_h": sh, "start_m": sm, "end_h": eh, "end_m": em, "power": power, "on_off": on_off,
            "day_bits": db, "days": d}


def decode_schedule(b: bytes):
    sh, sm, eh, em = s(b[0:1]), s(b[1:2]), s(b[2:3]), s(b[3:4])

    def okh(x):
        return (0 <= x <= 23) or x == 48 or x == -1

    def okm(x):
        return (0 <= x <= 59) or x == -1
    if not okh(sh) or not okm(sm) or not okh(eh) or not okm(em):
        return NOVALUE
    on_off = s(b[4:5])
    if on_off not in SCHEDULE_TYPE_OF:
        return NOVALUE
    st = SCHEDULE_TYPE_OF[on_off]
    db = s(b[5:6])
    d = days(db)
    if d is NOVALUE:
        return NOVALUE
    power = s(b[6:8])
    if st == 0 and not -100 <= power <= 100:
        return NOVALUE
    if st == 6 and not -1000 <= power <= 1000:
        return NOVALUE
    soc = s(b[8:10])
    if not 0 <= soc <= 100:
        return NOVALUE
    mb = s(b[10:12])
    m = months(mb)
    if m is NOVALUE:
        return NOVALUE
    return {"start_h": sh, "start_m": sm, "end_h": eh, "end_m": em, "on_off": on_off, "schedule_type": st,
            "day_bits": db, "days": d, "power": power, "soc": soc, "month_bits": mb, "months": m}


def schedule_power_human(st: int, power: int) -> int:
    if st == 3:
        return power * 10
    if st == 6:
        return int(power / 10)
    if st == 85:
        return power if -100 <= power <= 100 else int(power / 10)
    return power


def decode(cls: str, b: bytes, scale=None, labels=None, enum_signed=False):
    """Reference value for one sensor of class `cls` from its own bytes `b` (len == WIDTH[cls])."""
    if cls in ("Voltage", "Current"):
        v = u(b)
        return Fraction(v, 10) if v != 0xFFFF else 0
    if cls == "CurrentS":
        return Fraction(s(b), 10)
    if cls == "Frequency":
        return Fraction(s(b), 100)
    if cls == "Power":
        v = u(b)
        return None if v == 0xFFFF else v
    if cls in ("PowerS", "Apparent", "Reactive", "IntegerS"):
        return s(b)
    if cls == "Power4":
        v = u(b)
        return None if v == 0xFFFFFFFF else v
    if cls in ("Power4S", "Apparent4", "Reactive4", "LongS"):
        return s(b)
    if cls == "Energy":
        v = u(b)
        return None if v == 0xFFFF else Fraction(v, 10)
    if cls == "Energy4":
        v = u(b)
        return None if v == 0xFFFFFFFF else Fraction(v, 10)
    if cls == "Energy4W":
        v = u(b)
        return None if v == 0xFFFFFFFF else Fraction(v, 1000)
    if cls == "Energy8":
        v = u(b)
        return None if v == 0xFFFFFFFFFFFFFFFF else Fraction(v, 100)
    if cls == "Temp":
        v = s(b)
        return None if v in (-1, 32767) else Fraction(v, 10)
    if cls == "CellVoltage":
        v = u(b)
        return Fraction(v, 1000) if v != 0xFFFF else 0
    if cls in ("Byte", "ByteH"):
        return s(b[0:1])
    if cls == "ByteL":
        return s(b[1:2])
    if cls == "Integer":
        v = u(b)
        return 0 if v == 0xFFFF else v
    if cls == "Long":
        v = u(b)
        return 0 if v == 0xFFFFFFFF else v
    if cls == "Decimal":
        return Fraction(s(b), scale)
    if cls == "Float":
        f = struct.unpack(">f", b)[0]
        if math.isnan(f) or math.isinf(f):
            return f
        return ("round3", f / scale)
    if cls == "Timestamp":
        try:
            return datetime(2000 + b[0], b[1], b[2], b[3], b[4], b[5])
        except ValueError:
            return NOVALUE
    if cls in ("Enum", "EnumH"):
        # label tables are keyed by the byte value 0..255 (ENERGY_MODES documents a code 128); enum_signed gives the
        # lookup of the byte read as a signed number instead (what a sibling 'Byte' code sensor reports)
        return labels.get(s(b[0:1]) if enum_signed else u(b[0:1]))
    if cls == "EnumL":
        return labels.get(s(b[1:2]) if enum_signed else u(b[1:2]))
    if cls == "Enum2":
        v = u(b)
        return labels.get(0 if v == 0xFFFF else v)
    if cls == "EnumBitmap4":
        v = s(b)
        return decode_bitmap(0 if v == -1 else v, labels)
    if cls == "EcoModeV1":
        return decode_eco_v1(b)
    if cls in ("EcoModeV2", "Schedule", "PeakShavingMode"):
        return decode_schedule(b)
    raise KeyError(cls)


def bitmap22(hi_bytes: bytes, lo_bytes: bytes, labels: dict) -> str:
    hi, lo = u(hi_bytes), u(lo_bytes)
    hi = 0 if hi == 0xFFFF else hi
    lo = 0 if lo == 0xFFFF else lo
    return decode_bitmap(hi * 65536 + lo, labels)


def same(lib, ref) -> bool:
    """Compare a library value with a reference value (Fractions are exact; floats get relative 2^-50)."""
    if ref is NOVALUE:
        return lib is None
    if isinstance(ref, tuple) and ref and ref[0] == "round3":
        x = ref[1]
        if lib is None or isinstance(lib, (str, bytes)):
            return False
        if math.isnan(x):
            return isinstance(lib, float) and math.isnan(lib)
        return abs(lib - x) <= 0.0005 + abs(x) * 2.0 ** -40
    if isinstance(ref, float):
        if math.isnan(ref):
            return isinstance(lib, float) and math.isnan(lib)
        return lib == ref
    if isinstance(ref, Fraction):
        if lib is None or isinstance(lib, (str, bytes, bool)):
            return False
        try:
            lf = Fraction(lib)
        except (TypeError, ValueError, OverflowError):
            return False
        if lf == ref:
            return True
        return abs(lf - ref) <= abs(ref) * Fraction(1, 2 ** 50)
    if ref is None:
        return lib is None
    if isinstance(ref, (int, str)) and not isinstance(ref, bool):
        return type(lib) in (int, float, str) and lib == ref and not isinstance(lib, bool)
    return lib == ref


def eco_fields(obj):
    """Fields of a library EcoModeV1/Schedule object as a dict (by public attribute names)."""
    names = ["start_h", "start_m", "end_h", "end_m", "power", "on_off", "day_bits", "days"]
    out = {n: getattr(obj, n, None) for n in names}
    for n in ("soc", "month_bits", "months"):
        if hasattr(obj, n) and hasattr(obj, "month_bits"):
            out[n] = getattr(obj, n)
    if hasattr(obj, "schedule_type") and hasattr(obj, "month_bits"):
        out["schedule_type"] = int(obj.schedule_type)
    return out


# ------------------------------------------------------------------------------ encoders (C17)

def encode(cls: str, value, scale=None, old_word: bytes = None):
    """Reference encoding of a setting value -> bytes, or NOVALUE when the class defines no encoding."""
    if cls in ("Voltage", "Current"):
        return int(round(Fraction(str(value)) * 10)).to_bytes(2, "big", signed=False)
    if cls == "CurrentS":
        return int(round(Fraction(str(value)) * 10)).to_bytes(2, "big", signed=True)
    if cls == "Integer":
        return int(value).to_bytes(2, "big", signed=False)
    if cls == "IntegerS":
        return int(value).to_bytes(2, "big", signed=True)
    if cls == "Long":
        return int(value).to_bytes(4, "big", signed=False)
    if cls == "LongS":
        return int(value).to_bytes(4, "big", signed=True)
    if cls == "Decimal":
        return int(round(Fraction(str(value)) * scale)).to_bytes(2, "big", signed=True)
    if cls == "ByteH":
        return bytes([int(value) & 0xFF, old_word[1]])
    if cls == "ByteL":
        return bytes([old_word[0], int(value) & 0xFF])
    if cls == "Timestamp":
        if isinstance(value, str):
            value = datetime.fromisoformat(value)
        return bytes([value.year - 2000, value.month, value.day, value.hour, value.minute, value.second])
    if cls in ("EcoModeV1", "EcoModeV2", "Schedule", "PeakShavingMode"):
        return bytes(value)
    return NOVALUE
