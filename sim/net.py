"""SimNet, fake transports, fault layer and World.

Transports mirror CPython 3.12 asyncio/selector_events.py behaviour where the library can observe it:
 * UDP sendto on a closed transport is ignored; an OSError on send calls protocol.error_received()
   synchronously; an asynchronous socket error is delivered through error_received() from the read path;
   close() queues connection_lost(None); nothing is delivered after close(); one datagram per loop iteration.
 * TCP write on a lost connection is ignored; a write error -> _force_close(exc) -> connection_lost(exc) queued;
   peer FIN -> eof_received(), falsy -> close(); peer RST -> _force_close(ConnectionResetError);
   segments due at the same instant are coalesced into one data_received() (a stream has no boundaries).
 * close() on a transport whose loop has been closed raises RuntimeError('Event loop is closed').
"""
from __future__ import annotations

import asyncio
import errno as _errno
import hashlib
import heapq
import os
import random

from .loop import Clock, SimLoop, HarnessError

DEFAULT_LATENCY = 2.0 ** -10


def oserror(code: int) -> OSError:
    return OSError(code, os.strerror(code))  # OSError picks the subclass (ConnectionRefusedError, ...) itself


class _BaseTransport:
    kind = "?"

    def __init__(self, loop: SimLoop, net: "SimNet", protocol, remote):
        self._loop = loop
        self._net = net
        self._protocol = protocol
        self.remote = remote
        self._closing = False
        self._conn_lost = 0
        self.tid = len(net.transports)
        self.open_t = net.world.clock.now
        self.close_t = None
        self.lost_called = False
        net.transports.append(self)
        net.world.log("open", self.kind, self.tid, id_of(net, protocol), loop.name)

    # -- asyncio.BaseTransport API
    def is_closing(self):
        return self._closing

    def get_extra_info(self, name, default=None):
        if name == "peername":
            return self.remote
        if name == "socket" and getattr(self, "fake_sock", None) is not None:
            return self.fake_sock
        return default  # 'socket' -> None: the library's keep-alive block is skipped by its own None test

    def get_protocol(self):
        return self._protocol

    def set_protocol(self, protocol):
        self._protocol = protocol

    def _mark_closed(self, why):
        if self.close_t is None:
            self.close_t = self._net.world.clock.now
            self._net.world.log("close", self.kind, self.tid, why)

    def close(self):
        if self._closing:
            return
        self._closing = True
        self._conn_lost += 1
        self._mark_closed("close")
        # _loop.call_soon raises RuntimeError('Event loop is closed') on a closed loop, like the real one
        self._loop.call_soon(self._call_connection_lost, None)

    def abort(self):
        self._force_close(None)

    def _force_close(self, exc):
        if self._conn_lost:
            return
        if not self._closing:
            self._closing = True
        self._conn_lost += 1
        self._mark_closed("force:" + (type(exc).__name__ if exc else "None"))
        self._loop.call_soon(self._call_connection_lost, exc)

    def _fatal_error(self, exc, message):
        if not isinstance(exc, OSError):
            self._loop.call_exception_handler({"message": message, "exception": exc, "transport": self,
                                               "protocol": self._protocol})
        self._force_close(exc)

    def _call_connection_lost(self, exc):
        self.lost_called = True
        self._protocol.connection_lost(exc)

    def is_open(self):
        return not self._closing


class SimUdpTransport(_BaseTransport, asyncio.DatagramTransport):
    kind = "udp"

    def __init__(self, loop, net, protocol, remote):
        asyncio.DatagramTransport.__init__(self)
        _BaseTransport.__init__(self, loop, net, protocol, remote)

    def sendto(self, data, addr=None):
        if not isinstance(data, (bytes, bytearray, memoryview)):
            raise TypeError(f"data argument must be a bytes-like object, not {type(data).__name__!r}")
        if not data:
            return
        if self._conn_lost:
            self._conn_lost += 1
            self._net.count("send_on_closed")
            return
        err = self._net.client_send(self, bytes(data))
        if err is not None:
            self._protocol.error_received(err)

    # deliveries (called from the loop's ready queue)
    def _deliver(self, kind, payload, rec):
        if self._conn_lost or self._closing:
            rec["status"] = "dropped:closed"
            self._net.count("delivery_to_closed")
            return
        rec["status"] = "delivered"
        rec["t_run"] = self._net.world.clock.now
        self._net.world.log("deliver", self.tid, kind, payload.hex() if isinstance(payload, bytes) else payload)
        if kind == "data":
            addr = self.remote
            if ":" in str(addr[0]):
                addr = (addr[0], addr[1], 0, 0)   # asyncio reports an IPv6 sender as (host, port, flowinfo, scope_id)
            self._protocol.datagram_received(payload, addr)
        elif kind == "icmp":
            self._protocol.error_received(oserror(payload))
        else:
            raise HarnessError(f"udp delivery kind {kind}")


class _FakeSock:
    """What transport.get_extra_info('socket') gives: only setsockopt/ioctl, which fail with the configured errno."""

    def __init__(self, net, errno_):
        self._net, self._errno = net, errno_

    def setsockopt(self, *args):
        if len(args) != 3 or not all(isinstance(a, int) and not isinstance(a, bool) for a in args[:2]) \
                or not isinstance(args[2], (int, bytes)) or isinstance(args[2], bool) and False:
            raise TypeError("setsockopt: an integer or a bytes-like option value is required")
        if self._errno is None:
            return None
        self._net.count("fault:setsockopt_error")
        raise oserror(self._errno)

    def ioctl(self, *args):
        if self._errno is not None:
            raise oserror(self._errno)


class SimTcpTransport(_BaseTransport, asyncio.Transport):
    kind = "tcp"

    def __init__(self, loop, net, protocol, remote):
        asyncio.Transport.__init__(self)
        _BaseTransport.__init__(self, loop, net, protocol, remote)
        self._eof = False

    def write(self, data):
        if not isinstance(data, (bytes, bytearray, memoryview)):
            raise TypeError(f"data argument must be a bytes-like object, not {type(data).__name__!r}")
        if self._eof:
            raise RuntimeError("Cannot call write() after write_eof()")
        if not data:
            return
        if self._conn_lost:
            self._conn_lost += 1
            self._net.count("send_on_closed")
            return
        err = self._net.client_send(self, bytes(data))
        if err is not None:
            self._force_close(err)

    def write_eof(self):
        self._eof = True

    def can_write_eof(self):
        return True

    def pause_reading(self):
        # selector_events: the socket is no longer watched for reading; what arrives stays in the kernel's buffer
        self._paused = True

    def resume_reading(self):
        if not getattr(self, "_paused", False):
            return
        self._paused = False
        held, self._held = getattr(self, "_held", []), []
        for (kind, payload, rec) in held:
            self._loop.call_soon(self._deliver, kind, payload, rec)

    def is_reading(self):
        return not getattr(self, "_paused", False) and not self._closing

    def _deliver(self, kind, payload, rec):
        if self._conn_lost or self._closing:
            rec["status"] = "dropped:closed"
            self._net.count("delivery_to_closed")
            return
        if getattr(self, "_paused", False):
            if not hasattr(self, "_held"):
                self._held = []
            self._held.append((kind, payload, rec))
            self._net.count("held_while_reading_paused")
            return
        rec["status"] = "delivered"
        rec["t_run"] = self._net.world.clock.now
        self._net.world.log("deliver", self.tid, kind, payload.hex() if isinstance(payload, bytes) else payload)
        if kind == "data":
            try:
                self._protocol.data_received(payload)
            except (SystemExit, KeyboardInterrupt):
                raise
            except BaseException as exc:  # selector_events: _fatal_error -> exception handler + force close
                self._fatal_error(exc, "Fatal error: protocol.data_received() call failed.")
        elif kind == "fin":
            try:
                keep_open = self._protocol.eof_received()
            except (SystemExit, KeyboardInterrupt):
                raise
            except BaseException as exc:
                self._fatal_error(exc, "Fatal error: protocol.eof_received() call failed.")
                return
            if not keep_open:
                self.close()
        elif kind == "rst":
            self._force_close(oserror(_errno.ECONNRESET))
        else:
            raise HarnessError(f"tcp delivery kind {kind}")


def id_of(net, protocol):
    """Small stable integer for a protocol object (owner of transports)."""
    key = id(protocol)
    m = net._proto_ids
    if key not in m:
        m[key] = len(m)
        net._proto_refs.append(protocol)  # keep alive so id() is not reused
    return m[key]


OK_FAULT = {"k": "ok"}


class SimNet:
    def __init__(self, world: "World", faults=None, connects=None):
        self.world = world
        self.devices = {}
        self.hosts = {}
        self.faults = list(faults or [])
        self.connects = list(connects or [])
        self.n_tx = 0
        self.n_conn = 0
        self.fault_offset = 0
        self.conn_offset = 0
        self.default_fault = OK_FAULT
        self.default_connect = OK_FAULT
        self._heap = []
        self._seq = 0
        self.transports = []
        self.transmissions = []
        self.deliveries = []
        self.connect_log = []
        self.counters = {}
        self._proto_ids = {}
        self._proto_refs = []
        self.answers = []  # conforming answer per transmission (None when the device stayed silent)
        self.on_transmission = None  # optional monitor hook(rec)

    # ------------------------------------------------------------- bookkeeping
    def count(self, key, n=1):
        self.counters[key] = self.counters.get(key, 0) + n

    def add_device(self, host, port, device):
        self.devices[(host, port)] = device

    def add_host(self, name, address):
        """Name resolution: a transport opened to `name` is connected to `address`; received datagrams carry the
        numeric address, as the socket layer reports it."""
        self.hosts[name] = address

    def resolve(self, host):
        return self.hosts.get(host, host)

    def open_transports(self, owner=None):
        return [t for t in self.transports if t.is_open() and (owner is None or t._protocol is owner)]

    def begin_script(self, faults=(), default=None, connects=(), default_connect=None):
        """Install a fault script that applies to the transmissions/connects made from now on (per-request scripts
        for sequential histories: a request that transmits more or less often than planned does not shift the
        faults of the requests after it)."""
        self.faults = list(faults)
        self.fault_offset = self.n_tx
        self.default_fault = default or OK_FAULT
        self.connects = list(connects)
        self.conn_offset = self.n_conn
        self.default_connect = default_connect or OK_FAULT

    def fault_at(self, i):
        j = i - self.fault_offset
        return self.faults[j] if 0 <= j < len(self.faults) else self.default_fault

    # ------------------------------------------------------------- event heap
    def _push(self, t, item):
        self._seq += 1
        heapq.heappush(self._heap, (t, self._seq, item))

    def next_time(self):
        return self._heap[0][0] if self._heap else None

    def last_event_time(self):
        """Time of the last pending network event (None when the network is quiet)."""
        return max((t for t, _, _ in self._heap), default=None)

    def pop_due(self, now, loop):
        """Return [(fn, args)] for the events due at `now`, in (time, seq) order.  One datagram/error per UDP
        transport per call (level-triggered selector + one recvfrom per _read_ready); TCP data chunks for the
        same transport that are due together are coalesced."""
        out = []
        if not self._heap or self._heap[0][0] > now:
            return out
        served_udp = set()
        deferred = []
        tcp_last = {}
        while self._heap and self._heap[0][0] <= now:
            t, seq, item = heapq.heappop(self._heap)
            kind = item["ev"]
            if kind == "connect":
                fut = item["fut"]
                if item["loop"] is loop and not fut.done():
                    out.append((_resolve, (fut, item["outcome"])))
                continue
            tr = item["tr"]
            rec = item["rec"]
            if tr._loop is not loop or loop.is_closed():
                rec["status"] = "dropped:other-loop"
                self.count("delivery_to_other_loop")
                continue
            if tr.kind == "udp":
                if tr.tid in served_udp:
                    deferred.append((t, seq, item))
                    continue
                served_udp.add(tr.tid)
                out.append((tr._deliver, (kind, item["payload"], rec)))
            else:
                if kind == "data" and tr.tid in tcp_last and tcp_last[tr.tid][0] == "data":
                    # coalesce with the previous chunk for this transport
                    idx = tcp_last[tr.tid][1]
                    fn, (k0, p0, r0) = out[idx]
                    out[idx] = (fn, (k0, p0 + item["payload"], r0))
                    rec["status"] = "coalesced"
                    self.count("tcp_coalesced")
                    continue
                out.append((tr._deliver, (kind, item["payload"], rec)))
                tcp_last[tr.tid] = (kind, len(out) - 1)
        for d in deferred:
            heapq.heappush(self._heap, d)
        return out

    def schedule_delivery(self, tr, delay, kind, payload, tx_index):
        t = self.world.clock.now + delay
        rec = {"t": t, "tx": tx_index, "tid": tr.tid, "kind": kind,
               "data": payload if isinstance(payload, bytes) else None,
               "code": payload if not isinstance(payload, bytes) else None, "status": "pending"}
        self.deliveries.append(rec)
        self._push(t, {"ev": kind, "tr": tr, "payload": payload, "rec": rec})
        return rec

    # ------------------------------------------------------------- connects
    def _next_connect(self):
        j = self.n_conn
        self.n_conn += 1
        jj = j - self.conn_offset
        return j, (self.connects[jj] if 0 <= jj < len(self.connects) else self.default_connect)

    async def open_udp(self, loop, factory, remote):
        j, c = self._next_connect()
        self.connect_log.append({"j": j, "t": self.world.clock.now, "kind": "udp", "outcome": c["k"],
                                 "t_done": self.world.clock.now})
        if c["k"] == "dns":
            # the host NAME cannot be resolved (DNS down): getaddrinfo fails with a negative EAI_* error number
            import socket as _socket
            self.count("fault:connect_dns")
            self.world.log("connect", "udp", j, "dns")
            raise _socket.gaierror(c.get("eai", -3), "Temporary failure in name resolution")
        if c["k"] == "sockerr":
            self.count("fault:sockerr")
            self.world.log("connect", "udp", j, "sockerr", c["errno"])
            raise oserror(c["errno"])
        protocol = factory()
        tr = SimUdpTransport(loop, self, protocol, (self.resolve(remote[0]), remote[1]))
        waiter = loop.create_future()
        loop.call_soon(protocol.connection_made, tr)
        loop.call_soon(_set_unless_cancelled, waiter)
        try:
            await waiter
        except BaseException:
            tr.close()
            raise
        return tr, protocol

    async def open_tcp(self, loop, factory, host, port):
        j, c = self._next_connect()
        k = c["k"]
        rec = {"j": j, "t": self.world.clock.now, "kind": "tcp", "outcome": k, "t_done": None}
        self.connect_log.append(rec)
        self.world.log("connect", "tcp", j, k)
        if k != "ok":
            self.count("fault:connect_" + k)
        fut = loop.create_future()
        if k != "hang":
            self._push(self.world.clock.now + c.get("d", 0.0),
                       {"ev": "connect", "fut": fut, "loop": loop, "outcome": c})
        try:
            outcome = await fut
        finally:
            rec["t_done"] = self.world.clock.now
        if outcome["k"] == "refused":
            raise oserror(_errno.ECONNREFUSED)
        if outcome["k"] == "unreach":
            raise oserror(outcome.get("errno", _errno.EHOSTUNREACH))
        protocol = factory()
        tr = SimTcpTransport(loop, self, protocol, (self.resolve(host), port))
        # every connection hands out a socket object for get_extra_info('socket'): it checks the argument types of
        # setsockopt like the real one and, on request, refuses the options (a platform without them: OSError)
        tr.fake_sock = _FakeSock(self, outcome.get("sockopt"))
        waiter = loop.create_future()
        loop.call_soon(protocol.connection_made, tr)
        loop.call_soon(_set_unless_cancelled, waiter)
        try:
            await waiter
        except BaseException:
            tr.close()
            raise
        return tr, protocol

    # ------------------------------------------------------------- transmissions + fault layer
    def client_send(self, tr, data: bytes):
        """Called from transport.sendto()/write().  Returns an OSError to be reported as a send error, or None."""
        i = self.n_tx
        self.n_tx += 1
        fault = self.fault_at(i)
        now = self.world.clock.now
        rec = {"i": i, "t": now, "tid": tr.tid, "owner": id_of(self, tr._protocol), "data": data,
               "fault": fault["k"], "kind": tr.kind, "f": fault}
        self.transmissions.append(rec)
        self.world.log("tx", i, tr.tid, data.hex(), fault["k"])
        dev = self.devices.get(tuple(tr.remote))
        k = fault["k"]
        if k != "ok":
            self.count("fault:" + k)
        self.answers.append(None)
        if self.on_transmission is not None:
            self.on_transmission(rec)
        if k == "senderr":
            return oserror(fault["errno"])
        if dev is None:
            rec["fault"] = "nodevice"
            self._then(tr, fault, i)
            return None
        if k == "drop":
            dev.note_lost(data, tr.kind)
            self._then(tr, fault, i)
            return None
        process = True
        ans = dev.answer(data, tr.kind, process=process, tx_index=i)
        self.answers[i] = ans
        d = fault.get("d", DEFAULT_LATENCY)
        dl = []  # list of (delay, bytes)
        if ans is None:
            rec["silent"] = True
        elif k == "ok":
            dl.append((d, ans))
            dup = getattr(self, "dup_exceptions", None)
            if dup and tr.kind == "udp" and len(ans) > 3 and ans[0:2] == b"\xaa\x55" and ans[3] & 0x80:
                dl.append((d + dup, ans))   # a refusal (Modbus exception frame) that the network delivers twice
                self.count("fault:dup_exception")
        elif k == "dropans":
            pass
        elif k == "garbage":
            rnd = random.Random(fault.get("seed", 0))
            dl.append((d, bytes(rnd.getrandbits(8) for _ in range(fault["n"]))))
        elif k == "raw":
            dl.append((d, bytes.fromhex(fault["hex"])))
        elif k == "mut":
            dl.append((d, mutate(ans, fault["ops"])))
        elif k == "exc":
            frame = dev.exception_frame(data, tr.kind, fault["code"])
            if frame and fault.get("ops"):
                frame = mutate(frame, fault["ops"])   # e.g. an exception frame damaged in flight
            dl.append((d, frame))
        elif k == "foreign":
            other = dev.foreign_answer(data, tr.kind, fault["req"], tx_index=i)
            if other is not None:
                dl.append((d, other))
        elif k == "frag":
            s = fault["s"]
            dl.append((fault.get("d1", d), ans[:s]))
            dl.append((fault.get("d2", d), ans[s:]))
        elif k == "lonefrag":
            dl.append((fault.get("d1", d), ans[:fault["s"]]))
        elif k == "frag_swapped":
            s = fault["s"]
            dl.append((fault.get("d1", d), ans[s:]))
            dl.append((fault.get("d2", d), ans[:s]))
        elif k == "frag_then":
            s = fault["s"]
            dl.append((fault.get("d1", d), ans[:s]))
            w = fault["what"]
            rem = ans[s:]
            if "minus" in w:
                x = rem[:len(rem) - w["minus"]]
            elif "plus" in w:
                x = rem + bytes.fromhex(w["plus"])
            elif "flip" in w:
                x = mutate(rem, [["flip", w["flip"] % max(1, len(rem) * 8)]])
            elif "other" in w:
                x = dev.foreign_answer(data, tr.kind, w["other"], tx_index=i)
            elif "prev_rem" in w:
                prev = self.answers[w["prev_rem"]["tx"]] if w["prev_rem"]["tx"] < i else None
                x = prev[w["prev_rem"]["s"]:] if prev else b""
            elif "raw" in w:
                x = bytes.fromhex(w["raw"])
            elif "whole" in w:
                x = ans
            elif "mut" in w:
                x = mutate(rem, w["mut"])
            else:
                raise HarnessError(f"frag_then what={w}")
            if x:
                dl.append((fault.get("d2", d), x))
        elif k == "dup":
            dl.append((fault.get("d1", d), ans))
            dl.append((fault.get("d2", d), ans))
        elif k == "multi":
            # several deliveries in answer to ONE transmission
            for part in fault["parts"]:
                dl.append((part.get("d", d), self._part_bytes(part, ans, dev, data, tr)))
        else:
            raise HarnessError(f"unknown fault kind {k}")
        if fault.get("again") is not None and dl:
            dl.append((fault["again"], dl[-1][1]))
            self.count("fault:again")
        for delay, payload in dl:
            if payload:
                self.schedule_delivery(tr, delay, "data", payload, i)
        self._then(tr, fault, i)
        return None

    def _part_bytes(self, part, ans, dev, data, tr):
        w = part["what"]
        if w == "ans":
            return ans
        if w == "garbage":
            rnd = random.Random(part.get("seed", 0))
            return bytes(rnd.getrandbits(8) for _ in range(part["n"]))
        if w == "exc":
            return dev.exception_frame(data, tr.kind, part["code"]) or b""
        if w == "prefix":
            return ans[:part["s"]]
        if w == "suffix":
            return ans[part["s"]:]
        if w == "slice":
            return ans[part["a"]:part["b"]]
        if w == "raw":
            return bytes.fromhex(part["hex"])
        raise HarnessError(f"multi part {w}")

    def _then(self, tr, fault, i):
        for ev in fault.get("then", ()):
            kind = ev["ev"]
            if kind == "data":
                # a stray datagram/segment later on (e.g. while the socket is idle)
                ans = self.answers[i] or b""
                payload = self._part_bytes(ev, ans, self.devices.get(tuple(tr.remote)), self.transmissions[i]["data"], tr)
                if payload:
                    self.count("fault:stray_data")
                    self.schedule_delivery(tr, ev["d"], "data", payload, i)
                continue
            if kind in ("fin", "rst"):
                if tr.kind != "tcp":
                    continue
                self.count("fault:" + kind)
                self.schedule_delivery(tr, ev["d"], kind, kind, i)
            elif kind == "icmp":
                if tr.kind != "udp":
                    continue
                self.count("fault:icmp")
                self.schedule_delivery(tr, ev["d"], "icmp", ev["errno"], i)
            else:
                raise HarnessError(f"unknown then-event {kind}")


def _resolve(fut, outcome):
    if not fut.done():
        fut.set_result(outcome)


def _set_unless_cancelled(fut):
    if not fut.cancelled():
        fut.set_result(None)


def mutate(data: bytes, ops) -> bytes:
    b = bytearray(data)
    for op in ops:
        name = op[0]
        if name == "flip":
            bit = op[1]
            if len(b):
                bit %= len(b) * 8
                b[bit // 8] ^= 1 << (bit % 8)
        elif name == "trunc":
            b = b[:op[1]]
        elif name == "extend":
            b += bytes.fromhex(op[1])
        elif name == "set":
            if -len(b) <= op[1] < len(b):
                b[op[1]] = op[2] & 0xFF
        elif name == "add":  # add delta to byte at index (mod 256)
            if -len(b) <= op[1] < len(b):
                b[op[1]] = (b[op[1]] + op[2]) & 0xFF
        elif name == "xor":   # XOR a byte pattern (hex) at index
            pat = bytes.fromhex(op[2])
            for j, x in enumerate(pat):
                if 0 <= op[1] + j < len(b):
                    b[op[1] + j] ^= x
        elif name == "swap":
            i, j = op[1], op[2]
            if 0 <= i < len(b) and 0 <= j < len(b):
                b[i], b[j] = b[j], b[i]
        elif name == "prepend":
            b = bytearray(bytes.fromhex(op[1])) + b
        elif name == "fixcrc_rtu":   # recompute the RTU CRC (frame = AA55 + rtu + crc) after other edits
            if len(b) >= 5:
                from .codec import crc_bytes
                b[-2:] = crc_bytes(bytes(b[2:-2]))
        elif name == "fixsum_aa55":
            if len(b) >= 3:
                from .codec import sum16
                sm = sum16(bytes(b[:-2]))
                b[-2:] = bytes((sm >> 8, sm & 0xFF))
        else:
            raise HarnessError(f"mutate op {name}")
    return bytes(b)


class World:
    """One simulated execution: clock + net + loops + event log."""

    def __init__(self, faults=None, connects=None, max_steps=200_000, max_time=1.0e7):
        self.clock = Clock()
        self.events = []
        self.loop_exceptions = []
        self.max_steps = max_steps
        self.max_time = max_time
        self.net = SimNet(self, faults, connects)
        self.loops = []

    def log(self, kind, *fields):
        self.events.append((len(self.events), self.clock.now, kind) + fields)

    def digest(self) -> str:
        h = hashlib.sha256()
        for e in self.events:
            h.update(repr(e).encode())
        return h.hexdigest()[:32]

    def new_loop(self, name=None) -> SimLoop:
        loop = SimLoop(self, name or f"L{len(self.loops)}")
        self.loops.append(loop)
        return loop

    def run(self, coro, loop=None, close=True):
        """Run coroutine to completion on a (new) SimLoop, the way asyncio.run() would."""
        own = loop is None
        if own:
            loop = self.new_loop()
        asyncio.set_event_loop(loop)
        try:
            return loop.run_until_complete(coro)
        finally:
            asyncio.set_event_loop(None)
            if own and close:
                try:
                    _cancel_all(loop)
                finally:
                    loop.close()

    @property
    def steps(self):
        return sum(l.steps for l in self.loops)


def _task_order(t):
    name = t.get_name()
    head, _, num = name.rpartition("-")
    if head == "Task" and num.isdigit():
        return (0, int(num), "")
    return (1, 0, name)


def _cancel_all(loop):
    """asyncio.run()'s shutdown: cancel what is left, give it a chance to finish."""
    try:
        tasks = [t for t in asyncio.all_tasks(loop) if not t.done()]
    except RuntimeError:
        return
    if not tasks:
        return
    # all_tasks() is a set of objects hashed by address: its order differs from process to process.  Cancel in
    # creation order (default task names carry a process-wide counter; named tasks sort by name after them).
    tasks.sort(key=_task_order)
    for t in tasks:
        t.cancel()
    try:
        loop.run_until_complete(asyncio.gather(*tasks, return_exceptions=True))
    except BaseException:
        pass
