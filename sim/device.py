"""SimInverter: the peer.  A register-file model of an inverter with its own frame codec (sim.codec).

It answers Modbus RTU (UDP 8899), Modbus/TCP (502) and AA55 (UDP 8899) requests.  It is also the oracle for the
data-level properties: register file, write log, set of frames it could not parse canonically.
"""
from __future__ import annotations

from . import codec


class SimInverter:
    def __init__(self, seed: int = 0, mode: str = "file", comm_addr=None, valid=None, aa55=True, modbus=True,
                 fill: str = "hash"):
        """
        mode      'file'  -> reads are answered from the register file (explicit values over a seeded default)
                  'stamp' -> every payload word j of a read of register R answering transmission n is
                             ((R+j)&0xFF)<<8 | (n&0xFF): attributable to one request and one transmission
        comm_addr None -> answer any address (echoing it); int -> answer only that one
        valid     None -> every address readable/writable; else list of (lo, hi) inclusive ranges; a request that
                  touches anything outside gets exception 2 (ILLEGAL DATA ADDRESS)
        """
        self.seed = seed
        self.k = 0
        self.fill = fill
        self.mode = mode
        self.comm_addr = comm_addr
        self.valid = valid
        self.exc_map = []      # [(lo, hi, code)] ranges answered with an arbitrary exception code
        self.aa55 = aa55
        self.modbus = modbus
        self.regs = {}
        self.aa55_regs = {}    # AA55 register space (011A read / 0239 write), word addressed
        self.blocks = {}       # AA55 cmd -> payload bytes (0x0102, 0x0106, 0x0109)
        self.settings_block = None  # bytearray backing 0x0109 (ES), word offsets used by 03xx commands
        self.write_log = []    # [{"tx":n, "fc":..., "reg":..., "words":[...], "raw":bytes, "call":label}]
        self.requests = []     # every parsed request (dict) in arrival order, with "raw"
        self.unparsed = []     # frames the codec refused: (tx_index, transport, hex, reason)
        self.lost = []         # frames dropped before reaching the device (still parsed for C03)
        self.label = None      # harness-set label of the API call in progress
        self.on_poll = None    # optional callback(parsed) invoked before answering (register evolution)
        self.aa55_rtype_override = {}

    # ------------------------------------------------------------------ register file
    def default_word(self, a: int) -> int:
        if self.fill == "zero":
            return 0
        if self.fill == "ff":
            return 0xFFFF
        if self.fill == "step":
            return (self.step_byte(2 * a) << 8) | self.step_byte(2 * a + 1)
        if self.fill == "constw":
            # every register holds the same word: all multi-register fields (at any alignment) and all sensors see
            # the same raw value, e.g. every bitmap sensor the same code word
            if getattr(self, "const_word", None) is not None:
                return self.const_word
            return (0x0001, 0x0200, 0x8001, 0x0003, 0x4000, 0x0101, 0x8000, 0x00FF)[self.seed % 8]
        if self.fill in ("sp32a", "sp32b"):
            # special 32-bit patterns (IEEE infinities / NaN, integer extremes, sentinels) in aligned register pairs;
            # 'a' pairs start at even addresses, 'b' pairs at odd ones
            base = a - ((a - (1 if self.fill == "sp32b" else 0)) & 1)
            x = (base * 0x9E3779B1 + self.seed * 0x85EBCA6B + 0x1B873593) & 0xFFFFFFFF
            x ^= x >> 15
            x = (x * 0x2C1B3C6D) & 0xFFFFFFFF
            x ^= x >> 13
            pat = (0x7F800000, 0xFF800000, 0x7FC00000, 0xFFFFFFFF, 0x7FFFFFFF, 0x80000000, 0x00000000, 0x7F7FFFFF,
                   0x00000001, 0x80000001, 0xFFC00000, 0x00800000, 0x7F800001, 0xFFFFFFFE, 0x0000FFFF, 0xFFFF0000)[x & 15]
            return (pat >> 16) if a == base else (pat & 0xFFFF)
        if self.fill == "bound":
            x = (a * 0x9E3779B1 + self.seed * 0x85EBCA6B + 0x165667B1) & 0xFFFFFFFF
            x ^= x >> 13
            x = (x * 0x2C1B3C6D) & 0xFFFFFFFF
            x ^= x >> 16
            return (0x0000, 0xFFFF, 0x7FFF, 0x8000, 0x0001, 0xFFFE, 0xFFFF, 0x0000)[x & 7]
        x = (a * 0x9E3779B1 + self.seed * 0x85EBCA6B + 0x27D4EB2F) & 0xFFFFFFFF
        x ^= x >> 15
        x = (x * 0x2C1B3C6D) & 0xFFFFFFFF
        x ^= x >> 12
        return x & 0xFFFF

    def step_byte(self, j: int) -> int:
        """Full-period stepping content: over k = 0..65535 every pair of adjacent bytes takes every 16-bit value
        exactly once (even positions follow the low byte of k, odd positions the high byte plus a low-byte term)."""
        k = self.k
        h = (j * 0x9E3779B1 + self.seed * 0x7F4A7C15 + 0x2545F491) & 0xFFFFFFFF
        h ^= h >> 15
        h = (h * 0x2C1B3C6D) & 0xFFFFFFFF
        h ^= h >> 12
        a = (h & 0xFE) | 1
        b = (h >> 8) & 0xFF
        c = (h >> 16) & 0xFF
        if j & 1 == 0:
            return ((k & 0xFF) * a + b) & 0xFF
        return ((k >> 8) * a + (k & 0xFF) * c + b) & 0xFF

    def reg(self, a: int) -> int:
        v = self.regs.get(a)
        return self.default_word(a) if v is None else v

    def set_reg(self, a: int, v: int):
        self.regs[a] = v & 0xFFFF

    def set_bytes(self, a: int, data: bytes):
        assert len(data) % 2 == 0
        for j in range(len(data) // 2):
            self.regs[a + j] = (data[2 * j] << 8) | data[2 * j + 1]

    def get_bytes(self, a: int, nwords: int) -> bytes:
        out = bytearray()
        for j in range(nwords):
            w = self.reg(a + j)
            out += bytes((w >> 8, w & 0xFF))
        return bytes(out)

    def aa55_reg(self, a: int) -> int:
        v = self.aa55_regs.get(a)
        return self.default_word(a + 0x10000) if v is None else v

    def get_aa55_bytes(self, a: int, nwords: int) -> bytes:
        out = bytearray()
        for j in range(nwords):
            w = self.aa55_reg(a + j)
            out += bytes((w >> 8, w & 0xFF))
        return bytes(out)

    def set_aa55_bytes(self, a: int, data: bytes):
        for j in range(len(data) // 2):
            self.aa55_regs[a + j] = (data[2 * j] << 8) | data[2 * j + 1]

    def is_valid(self, lo: int, n: int) -> bool:
        if self.valid is None:
            return True
        hi = lo + n - 1
        a = lo
        # every address in [lo, hi] must be inside some valid range
        while a <= hi:
            for (l, h) in self.valid:
                if l <= a <= h:
                    a = h + 1
                    break
            else:
                return False
        return True

    def exc_code_for(self, lo: int, n: int):
        for (l, h, code) in self.exc_map:
            if lo <= h and l <= lo + n - 1:
                return code
        if not self.is_valid(lo, n):
            return 2
        return None

    def stamp_payload(self, reg: int, count: int, tx: int) -> bytes:
        out = bytearray()
        for j in range(count):
            out += bytes(((reg + j) & 0xFF, tx & 0xFF))
        return bytes(out)

    # ------------------------------------------------------------------ frames
    def note_lost(self, frame: bytes, transport: str):
        try:
            p = codec.parse_request(frame, transport)
            p["raw"] = frame
            p["lost"] = True
            p["call"] = self.label
            self.lost.append(p)
        except codec.CodecError as e:
            self.unparsed.append((None, transport, frame.hex(), str(e)))

    def _parse(self, frame, transport, tx_index):
        try:
            p = codec.parse_request(frame, transport)
        except codec.CodecError as e:
            self.unparsed.append((tx_index, transport, frame.hex(), str(e)))
            return None
        p["raw"] = frame
        p["tx_index"] = tx_index
        p["call"] = self.label
        return p

    def answer(self, frame: bytes, transport: str, process: bool = True, tx_index: int = 0):
        p = self._parse(frame, transport, tx_index)
        if p is None:
            return None
        if process:
            self.requests.append(p)
            if self.on_poll is not None:
                self.on_poll(p)
        return self.respond(p, process, tx_index)

    def foreign_answer(self, frame: bytes, transport: str, override: dict, tx_index: int = 0):
        """Well-formed answer to a *different* request (fields of the real one overridden)."""
        p = self._parse(frame, transport, tx_index)
        if p is None:
            return None
        q = dict(p)
        q.update(override)
        if isinstance(q.get("payload"), str):
            q["payload"] = bytes.fromhex(q["payload"])
        if q["framing"] in ("rtu", "tcp"):
            if q["fc"] == 3:
                q.setdefault("count", 1)
            elif q["fc"] == 6:
                q.setdefault("value", 0)
            elif q["fc"] == 16:
                q.setdefault("count", 1)
                q.setdefault("data", bytes(2 * q["count"]))
        return self.respond(q, False, tx_index, force=True)

    def exception_frame(self, frame: bytes, transport: str, code: int):
        p = self._parse(frame, transport, -1)
        if p is None or p["framing"] == "aa55":
            return None
        if p["framing"] == "rtu":
            return codec.rtu_exception(p["addr"], p["fc"], code)
        return codec.tcp_exception(p["tx"], p["addr"], p["fc"], code)

    def respond(self, p: dict, process: bool, tx_index: int, force: bool = False):
        fr = p["framing"]
        if fr == "aa55":
            if not self.aa55 and not force:
                return None
            return self._respond_aa55(p, process)
        if not self.modbus and not force:
            return None
        if self.comm_addr is not None and p["addr"] != self.comm_addr and not force:
            return None
        fc = p["fc"]
        addr = p["addr"]
        if fc == 3:
            n = p["count"]
            code = None if force else self.exc_code_for(p["reg"], max(n, 1))
            if code is None:
                if self.mode == "stamp":
                    payload = self.stamp_payload(p["reg"], n, tx_index)
                else:
                    payload = self.get_bytes(p["reg"], n)
                body = ("read", payload)
            else:
                body = ("exc", code)
        elif fc == 6:
            code = None if force else self.exc_code_for(p["reg"], 1)
            if code is None:
                if process:
                    self.regs[p["reg"]] = p["value"]
                    self.write_log.append({"tx": tx_index, "fc": 6, "reg": p["reg"], "words": [p["value"]],
                                           "raw": p["raw"], "call": self.label})
                body = ("write", p["reg"], p["value"])
            else:
                body = ("exc", code)
        else:
            data = p.get("data") or b""
            nwords = len(data) // 2
            code = None if force else self.exc_code_for(p["reg"], max(nwords, 1))
            if code is None:
                if process:
                    words = [(data[2 * j] << 8) | data[2 * j + 1] for j in range(nwords)]
                    for j, w in enumerate(words):
                        self.regs[p["reg"] + j] = w
                    self.write_log.append({"tx": tx_index, "fc": 16, "reg": p["reg"], "words": words,
                                           "raw": p["raw"], "call": self.label})
                body = ("write", p["reg"], p["count"])
            else:
                body = ("exc", code)
        if getattr(self, "answer_addr", None) is not None:
            addr = self.answer_addr   # a gateway/dongle that answers under its own unit id (the library does not check it)
        if fr == "rtu":
            if body[0] == "read":
                return codec.rtu_read_response(addr, body[1])
            if body[0] == "write":
                return codec.rtu_write_response(addr, fc, body[1], body[2])
            return codec.rtu_exception(addr, fc, body[1])
        if body[0] == "read":
            return self._mbap_quirk(codec.tcp_read_response(p["tx"], addr, body[1]))
        if body[0] == "write":
            return self._mbap_quirk(codec.tcp_write_response(p["tx"], addr, fc, body[1], body[2]))
        return self._mbap_quirk(codec.tcp_exception(p["tx"], addr, fc, body[1]))

    def _mbap_quirk(self, frame: bytes) -> bytes:
        """GoodWe devices are known to announce a wrong Modbus/TCP message length (the library ignores the field for
        that reason): `mbap_len` None = correct, 'data' = counts only the register data, 'six' = echoes the request's
        6, 'big' = too large."""
        q = getattr(self, "mbap_len", None)
        if q is None:
            return frame
        n = {"data": max(0, len(frame) - 9), "six": 6, "big": len(frame) + 20}[q]
        return frame[:4] + bytes((n >> 8, n & 0xFF)) + frame[6:]

    # ------------------------------------------------------------------ AA55
    def _respond_aa55(self, p: dict, process: bool):
        cmd = p["cmd"]
        rtype = self.aa55_rtype_override.get(cmd, codec.aa55_response_type(cmd))
        pl = p["payload"]
        if cmd in (0x0102, 0x0106, 0x0109):
            if cmd == 0x0109 and self.settings_block is not None:
                return codec.aa55_response(rtype, bytes(self.settings_block))
            blk = self.blocks.get(cmd)
            if blk is None:
                return None
            if callable(blk):
                blk = blk(p.get("tx_index", 0))
            return codec.aa55_response(rtype, blk)
        if cmd == 0x011A:
            # payload: reg(2) count(1)
            if len(pl) != 3:
                return None
            reg = (pl[0] << 8) | pl[1]
            n = pl[2]
            if self.mode == "stamp":
                return codec.aa55_response(rtype, self.stamp_payload(reg, n, p.get("tx_index", 0)))
            if getattr(self, "aa55_read_payload", None) is not None:
                # AA55 read answers carry their own length byte; real devices answer e.g. a whole 8-byte group for count 1
                return codec.aa55_response(rtype, self.aa55_read_payload)
            return codec.aa55_response(rtype, self.get_aa55_bytes(reg, n))
        if cmd == 0x0239:
            # payload: reg(2) n(1) data
            if len(pl) < 3:
                return None
            reg = (pl[0] << 8) | pl[1]
            data = pl[3:]
            if process:
                words = [(data[2 * j] << 8) | data[2 * j + 1] for j in range(len(data) // 2)]
                self.set_aa55_bytes(reg, data)
                if reg == 0x560 and self.settings_block is not None and len(data) >= 2:
                    self.settings_block[32:34] = data[0:2]
                self.write_log.append({"tx": p.get("tx_index"), "fc": 0x0239, "reg": reg, "words": words,
                                       "raw": p["raw"], "call": self.label, "n": pl[2]})
            return codec.aa55_response(rtype, b"\x06")
        if (cmd >> 8) in (0x02, 0x03):
            if process:
                self.write_log.append({"tx": p.get("tx_index"), "fc": cmd, "reg": None, "words": [],
                                       "raw": p["raw"], "call": self.label, "payload": pl})
                if self.settings_block is not None:
                    if cmd == 0x0335 and len(pl) == 2:
                        self.settings_block[52:54] = pl
                    elif cmd == 0x0359 and len(pl) == 1:
                        self.settings_block[66:68] = bytes((0, pl[0]))
            return codec.aa55_response(rtype, b"\x06")
        return None
