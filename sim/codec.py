"""Independent frame codec (written from the protocol descriptions, imports nothing from goodwe).

Modbus RTU (request: plain RTU; response: 'AA55' envelope + RTU with CRC over the RTU part),
Modbus/TCP (MBAP), AA55 (additive checksum).
"""
from __future__ import annotations


class CodecError(Exception):
    pass


def crc16(data: bytes) -> int:
    """Modbus CRC-16 (poly 0xA001 reflected, init 0xFFFF), bit by bit."""
    crc = 0xFFFF
    for b in data:
        crc ^= b
        for _ in range(8):
            if crc & 1:
                crc = (crc >> 1) ^ 0xA001
            else:
                crc >>= 1
    return crc & 0xFFFF


def crc_bytes(data: bytes) -> bytes:
    c = crc16(data)
    return bytes((c & 0xFF, c >> 8))  # low byte first on the wire


def sum16(data: bytes) -> int:
    return sum(data) & 0xFFFF


# --------------------------------------------------------------------- requests

def parse_rtu_request(frame: bytes) -> dict:
    """addr fc reg(2) val|count(2) [bytecount data] crc(lo,hi)"""
    if len(frame) < 8:
        raise CodecError(f"rtu request too short: {frame.hex()}")
    addr, fc = frame[0], frame[1]
    reg = (frame[2] << 8) | frame[3]
    val = (frame[4] << 8) | frame[5]
    if fc in (3, 6):
        if len(frame) != 8:
            raise CodecError(f"rtu fc{fc} request length {len(frame)} != 8: {frame.hex()}")
        body = frame[:6]
        data = None
    elif fc == 16:
        bc = frame[6]
        if len(frame) != 9 + bc:
            raise CodecError(f"rtu fc16 request length {len(frame)} != 9+{bc}: {frame.hex()}")
        body = frame[:7 + bc]
        data = bytes(frame[7:7 + bc])
    else:
        raise CodecError(f"rtu request: unknown function {fc}: {frame.hex()}")
    if crc_bytes(body) != bytes(frame[-2:]):
        raise CodecError(f"rtu request: bad crc: {frame.hex()}")
    out = {"framing": "rtu", "addr": addr, "fc": fc, "reg": reg}
    if fc == 3:
        out["count"] = val
    elif fc == 6:
        out["value"] = val
    else:
        out["count"] = val
        out["bytecount"] = frame[6]
        out["data"] = data
    return out


def parse_tcp_request(frame: bytes) -> dict:
    """tx(2) proto(2) len(2) unit fc reg(2) val|count(2) [bytecount data]"""
    if len(frame) < 12:
        raise CodecError(f"tcp request too short: {frame.hex()}")
    tx = (frame[0] << 8) | frame[1]
    proto = (frame[2] << 8) | frame[3]
    length = (frame[4] << 8) | frame[5]
    unit, fc = frame[6], frame[7]
    reg = (frame[8] << 8) | frame[9]
    val = (frame[10] << 8) | frame[11]
    out = {"framing": "tcp", "tx": tx, "proto": proto, "length": length, "following": len(frame) - 6,
           "addr": unit, "fc": fc, "reg": reg}
    if fc == 3:
        if len(frame) != 12:
            raise CodecError(f"tcp fc3 request length {len(frame)}: {frame.hex()}")
        out["count"] = val
    elif fc == 6:
        if len(frame) != 12:
            raise CodecError(f"tcp fc6 request length {len(frame)}: {frame.hex()}")
        out["value"] = val
    elif fc == 16:
        if len(frame) < 13:
            raise CodecError(f"tcp fc16 request too short: {frame.hex()}")
        bc = frame[12]
        if len(frame) != 13 + bc:
            raise CodecError(f"tcp fc16 request length {len(frame)} != 13+{bc}: {frame.hex()}")
        out["count"] = val
        out["bytecount"] = bc
        out["data"] = bytes(frame[13:])
    else:
        raise CodecError(f"tcp request: unknown function {fc}: {frame.hex()}")
    return out


def parse_aa55_request(frame: bytes) -> dict:
    """AA55 C0 7F cmd(2) len payload sum(2)"""
    if len(frame) < 9:
        raise CodecError(f"aa55 request too short: {frame.hex()}")
    if frame[0:2] != b"\xaa\x55":
        raise CodecError(f"aa55 request: bad magic: {frame.hex()}")
    if frame[2:4] != b"\xc0\x7f":
        raise CodecError(f"aa55 request: bad addresses: {frame.hex()}")
    cmd = (frame[4] << 8) | frame[5]
    ln = frame[6]
    if len(frame) != 9 + ln:
        raise CodecError(f"aa55 request: length byte {ln} but {len(frame) - 9} payload bytes: {frame.hex()}")
    if sum16(frame[:-2]) != ((frame[-2] << 8) | frame[-1]):
        raise CodecError(f"aa55 request: bad checksum: {frame.hex()}")
    return {"framing": "aa55", "cmd": cmd, "len": ln, "payload": bytes(frame[7:7 + ln])}


def parse_request(frame: bytes, transport: str) -> dict:
    if transport == "tcp":
        if frame[:4] == b"\xaa\x55\xc0\x7f":
            # an AA55 command sent over a TCP connection (an ES-family inverter behind port 502); a Modbus/TCP frame
            # cannot look like this: its bytes 2-3 are the protocol id 0
            return parse_aa55_request(frame)
        return parse_tcp_request(frame)
    if frame[:2] == b"\xaa\x55":
        return parse_aa55_request(frame)
    return parse_rtu_request(frame)


# -------------------------------------------------------------------- responses

def rtu_response(addr: int, body: bytes) -> bytes:
    """body = fc + rest (without address)"""
    rtu = bytes([addr]) + body
    return b"\xaa\x55" + rtu + crc_bytes(rtu)


def rtu_read_response(addr: int, payload: bytes) -> bytes:
    return rtu_response(addr, bytes([3, len(payload) & 0xFF]) + payload)


def rtu_write_response(addr: int, fc: int, reg: int, val: int) -> bytes:
    return rtu_response(addr, bytes([fc, reg >> 8, reg & 0xFF, (val >> 8) & 0xFF, val & 0xFF]))


def rtu_exception(addr: int, fc: int, code: int) -> bytes:
    return rtu_response(addr, bytes([fc | 0x80, code]))


def tcp_response(tx: int, unit: int, body: bytes) -> bytes:
    ln = 1 + len(body)
    return bytes([tx >> 8, tx & 0xFF, 0, 0, ln >> 8, ln & 0xFF, unit]) + body


def tcp_read_response(tx: int, unit: int, payload: bytes) -> bytes:
    return tcp_response(tx, unit, bytes([3, len(payload) & 0xFF]) + payload)


def tcp_write_response(tx: int, unit: int, fc: int, reg: int, val: int) -> bytes:
    return tcp_response(tx, unit, bytes([fc, reg >> 8, reg & 0xFF, (val >> 8) & 0xFF, val & 0xFF]))


def tcp_exception(tx: int, unit: int, fc: int, code: int) -> bytes:
    return tcp_response(tx, unit, bytes([fc | 0x80, code]))


def aa55_response(rtype: int, payload: bytes) -> bytes:
    head = b"\xaa\x55\x7f\xc0" + bytes([rtype >> 8, rtype & 0xFF, len(payload) & 0xFF]) + payload
    s = sum16(head)
    return head + bytes([s >> 8, s & 0xFF])


def aa55_response_type(cmd: int) -> int:
    """Response type = command word with bit 7 of the low byte set; the two irregular ones the
    library expects (0327->03B7, 0326->03B6) are taken over from it (DESIGN 2.4)."""
    if cmd == 0x0327:
        return 0x03B7
    if cmd == 0x0326:
        return 0x03B6
    return cmd | 0x0080


# ------------------------------------------------- reference response validators (C01)

def ref_validate(framing: str, req: dict, data: bytes) -> bool:
    """Is `data` a well-formed answer to request `req` by the clauses of C01?
    (function code matches; read answer: byte count == 2*count and len >= announced; write answer echoes
    register and value/count; checksum correct on rtu/aa55).  Header magic / address / MBAP are not demanded."""
    if framing == "rtu":
        if len(data) < 7:
            return False
        fc = data[3]
        if fc != req["fc"]:
            return False
        if fc == 3:
            if data[4] != 2 * req["count"]:
                return False
            end = 5 + data[4] + 2
            if len(data) < end:
                return False
        else:
            end = 10
            if len(data) < end:
                return False
            if ((data[4] << 8) | data[5]) != req["reg"]:
                return False
            v = (data[6] << 8) | data[7]
            want = req["value"] if fc == 6 else req["count"]
            if v != (want & 0xFFFF):
                return False
        return crc_bytes(data[2:end - 2]) == bytes(data[end - 2:end])
    if framing == "tcp":
        if len(data) < 9:
            return False
        fc = data[7]
        if fc != req["fc"]:
            return False
        if fc == 3:
            if data[8] != 2 * req["count"]:
                return False
            return len(data) >= 9 + data[8]
        if len(data) < 12:
            return False
        if ((data[8] << 8) | data[9]) != req["reg"]:
            return False
        v = (data[10] << 8) | data[11]
        want = req["value"] if fc == 6 else req["count"]
        return v == (want & 0xFFFF)
    if framing == "aa55":
        return ref_invalid_clauses_aa55(req, data) == []
    raise ValueError(framing)


def ref_invalid_clauses_aa55(req: dict, data: bytes) -> list:
    """The clauses of C01 an AA55 answer breaks (empty list: well-formed)."""
    bad = []
    if len(data) < 9 or len(data) != data[6] + 9:
        bad.append("length")
        return bad
    if ((data[4] << 8) | data[5]) != aa55_response_type(req["cmd"]):
        bad.append("type")
    if req["cmd"] == 0x011A and len(req["payload"]) == 3 and data[6] != 2 * req["payload"][2]:
        bad.append("payload-length")   # 'a read answer carries exactly 2 x count payload bytes'
    if sum16(data[:-2]) != ((data[-2] << 8) | data[-1]):
        bad.append("checksum")
    return bad
