"""Process handling: fork-per-run isolation, a 16-process pool, watchdog.

A *run* executes `module.run_case(case)` in a child forked from a process that has imported goodwe (from the source
root given by --src / GOODWE_SRC, default /repo) but never executed it, so every run starts from pristine module
state.  Results travel back over a pipe as pickle.
"""
from __future__ import annotations

import concurrent.futures as cf
import faulthandler
import importlib
import logging
import multiprocessing
import os
import pickle
import select
import signal
import sys
import time
import traceback

from .loop import HarnessError

RUN_WALL_LIMIT = 900.0   # backstop for a whole child (a batch of cases); a single case is bounded by CASE_WALL

_SRC = None


def setup_source(src: str):
    """Make `import goodwe` resolve to <src>/goodwe and verify it."""
    global _SRC
    src = os.path.abspath(src)
    _SRC = src
    for p in list(sys.path):
        if p and os.path.abspath(p) == src:
            sys.path.remove(p)
    sys.path.insert(0, src)
    for name in list(sys.modules):
        if name == "goodwe" or name.startswith("goodwe."):
            del sys.modules[name]
    import goodwe  # noqa
    f = os.path.abspath(goodwe.__file__)
    if not f.startswith(src + os.sep):
        raise HarnessError(f"goodwe imported from {f}, expected under {src}")
    logging.disable(logging.CRITICAL)
    return goodwe


def run_in_child(fn, arg, wall_limit: float = RUN_WALL_LIMIT):
    """Execute fn(arg) in a forked child; return ('ok', result) | ('error', text)."""
    r, w = os.pipe()
    # a watchdog thread armed in this process must not be alive across fork(): its lock state would be copied into
    # the child, where re-arming would wait for a thread that does not exist there
    faulthandler.cancel_dump_traceback_later()
    pid = os.fork()
    if pid == 0:
        status = 0
        try:
            os.close(r)
            faulthandler.dump_traceback_later(wall_limit * 0.9, exit=True)
            _arm_wall_watchdog()   # (the parent's interval timer is not inherited across fork)
            try:
                res = ("ok", fn(arg))
            except BaseException:  # harness exception inside the child
                res = ("error", traceback.format_exc())
            data = pickle.dumps(res, protocol=pickle.HIGHEST_PROTOCOL)
            with os.fdopen(w, "wb") as f:
                f.write(data)
        except BaseException:
            status = 3
        finally:
            os._exit(status)
    os.close(w)
    chunks = []
    deadline = time.monotonic() + wall_limit
    timed_out = False
    # while this process only waits for the child its own real-time watchdog (armed when a case forks sub-runs) is
    # suspended: the child has its own
    try:
        prev_timer = signal.setitimer(signal.ITIMER_REAL, 0)
    except (ValueError, OSError, AttributeError):
        prev_timer = (0.0, 0.0)
    with os.fdopen(r, "rb") as f:
        fd = f.fileno()
        while True:
            left = deadline - time.monotonic()
            if left <= 0:
                timed_out = True
                break
            rl, _, _ = select.select([fd], [], [], left)
            if not rl:
                timed_out = True
                break
            b = os.read(fd, 1 << 20)
            if not b:
                break
            chunks.append(b)
    if prev_timer[0] > 0:
        signal.setitimer(signal.ITIMER_REAL, prev_timer[0], prev_timer[1])
    if timed_out:
        try:
            os.kill(pid, signal.SIGKILL)
        except ProcessLookupError:
            pass
        os.waitpid(pid, 0)
        return ("error", f"run exceeded wall limit of {wall_limit}s (killed)")
    _, st = os.waitpid(pid, 0)
    if not chunks:
        return ("error", f"child died without result (status {st})")
    try:
        return pickle.loads(b"".join(chunks))
    except Exception:
        return ("error", "unpicklable child result: " + traceback.format_exc())


# ------------------------------------------------------------------ pool side

_W = {}


def _worker_init(src, modname, tier, seed, verif_root):
    if verif_root not in sys.path:
        sys.path.insert(0, verif_root)
    setup_source(src)
    mod = importlib.import_module(modname)
    _W["mod"] = mod
    _W["tier"] = tier
    _W["seed"] = seed
    warm = getattr(mod, "warm", None)
    if warm is not None:
        warm(tier)  # pure precomputation (enumeration tables); must not execute library code
    signal.signal(signal.SIGINT, signal.SIG_IGN)


def call_run_case(mod, case):
    """Every execution of a case goes through here: the interpreter's recursion limit is set RELATIVE to the current
    stack depth, so that a library bug that recurses without bound (send_request retries are recursive) hits
    RecursionError after the same number of steps whether the case runs in a batch, alone or as a replay."""
    depth = 0
    f = sys._getframe()
    while f is not None:
        depth += 1
        f = f.f_back
    old = sys.getrecursionlimit()
    sys.setrecursionlimit(depth + 1200)
    armed = _arm_wall_watchdog()
    hits0 = _WALL["hits"]
    tz = case.get("tz") if isinstance(case, dict) else None
    old_tz = os.environ.get("TZ")
    if tz:
        # the process runs in a time zone with daylight saving (POSIX rule, no tz database needed)
        import time as _time
        os.environ["TZ"] = tz
        _time.tzset()
    warn_ctx = None
    if isinstance(case, dict) and case.get("warn_error"):
        # the application runs with warnings turned into errors (python -W error / pytest -W error) - for warnings
        # issued from the library's own modules only (the harness and asyncio keep their defaults)
        import warnings as _warnings
        warn_ctx = _warnings.catch_warnings()
        warn_ctx.__enter__()
        _warnings.filterwarnings("error", module=r"goodwe(\..*)?$")
    debug_log = isinstance(case, dict) and case.get("debug_log")
    if debug_log:
        # the application has switched the library's logger to DEBUG (records are built and handled, output dropped)
        lg = logging.getLogger("goodwe")
        if not any(isinstance(h, logging.NullHandler) for h in lg.handlers):
            lg.addHandler(logging.NullHandler())
        lg.propagate = False
        lg.setLevel(logging.DEBUG)
        logging.disable(logging.NOTSET)
    try:
        res = mod.run_case(case)
        if _WALL["hits"] > hits0 and isinstance(res, dict):
            res["wall_hits"] = _WALL["hits"] - hits0
        return res
    finally:
        if warn_ctx is not None:
            warn_ctx.__exit__(None, None, None)
        if tz:
            import time as _time
            if old_tz is None:
                os.environ.pop("TZ", None)
            else:
                os.environ["TZ"] = old_tz
            _time.tzset()
        if debug_log:
            logging.disable(logging.CRITICAL)
            logging.getLogger("goodwe").setLevel(logging.NOTSET)
        if armed:
            signal.setitimer(signal.ITIMER_REAL, 0)
        sys.setrecursionlimit(old)


CASE_WALL = float(os.environ.get("VERIF_CASE_WALL", "100"))   # real seconds one case may take (the slowest legitimate case: a few seconds)
CASE_WALL_AGAIN = max(2.0, CASE_WALL / 10)   # further interruptions of the same case / first one of later cases
_WALL = {"hits": 0}


def _on_wall_alarm(signum, frame):
    from .loop import SimWallBudget
    _WALL["hits"] += 1
    raise SimWallBudget("no return to the event loop within the real-time budget (busy loop?)")


def _arm_wall_watchdog():
    """A busy loop in library code never reaches the simulated loop's step cap; a real-time alarm interrupts it (signals
    are handled between bytecodes) and the run ends like any other hang.  Main thread only."""
    try:
        signal.signal(signal.SIGALRM, _on_wall_alarm)
        # once a busy loop has been interrupted in this process the generous first budget is not spent again
        signal.setitimer(signal.ITIMER_REAL, CASE_WALL if not _WALL["hits"] else CASE_WALL_AGAIN, CASE_WALL_AGAIN)
        return True
    except (ValueError, OSError, AttributeError):
        return False


def run_case_entry(arg):
    mod, case = arg
    return call_run_case(mod, case)


def _reset_globals():
    """Module-level state of the library that a previous run in the same child may have advanced."""
    gp = sys.modules.get("goodwe.protocol")
    cur = getattr(gp, "_modbus_tcp_tx", None) if gp is not None else None
    if isinstance(cur, int) and not isinstance(cur, bool):
        gp._modbus_tcp_tx = 0
    elif cur is not None and hasattr(cur, "set"):
        try:
            cur.set(0)   # the counter kept in a ContextVar-like holder
        except Exception:  # noqa
            pass


def _slim(res, index):
    res["index"] = index
    if not res["violations"]:
        res.pop("case", None)
        if not (index < 64 or index % 211 == 0):
            res.pop("case_small", None)
    return res


def _case_runner(indices):
    """Runs one batch of case indices sequentially in this (child) process.  Batches larger than one are used
    only by property modules that declare BATCH > 1, i.e. whose runs touch no process-global library state except
    the Modbus/TCP transaction counter, which is reset here; the determinism re-check (solo re-execution in a
    fresh child) would expose any other leak as a digest mismatch."""
    mod = _W["mod"]
    out = []
    marker = os.environ.get("VERIF_ABORT_MARKER")
    for index in indices:
        if marker and os.path.exists(marker):
            break   # the check has seen enough runs that never return to the event loop and is wrapping up
        _reset_globals()
        case = mod.make_case(_W["tier"], _W["seed"], index)
        out.append(_slim(call_run_case(mod, case), index))
    return out


def _replay_runner(case):
    return call_run_case(_W["mod"], case)


def _worker_chunk(indices):
    """Run a chunk of case indices, each in its own forked child.  Returns list of compact results."""
    out = []
    batch = max(1, int(getattr(_W["mod"], "BATCH", 1)))
    if _W.get("solo"):
        batch = 1
    marker = os.environ.get("VERIF_ABORT_MARKER")
    hangs = 0
    for s in range(0, len(indices), batch):
        part = indices[s:s + batch]
        if marker and os.path.exists(marker):
            break
        st, res = run_in_child(_case_runner, part)
        if st != "ok":
            out.extend({"index": i, "harness_error": res} for i in part)
        else:
            out.extend(res)
            hangs += sum(1 for r in res if r.get("wall_hits"))
            if marker and hangs >= 3:
                # runs that never return to the event loop cost real time: tell every worker to wrap up (the check
                # reports what has been seen so far)
                try:
                    open(marker, "w").close()
                except OSError:
                    pass
    return out


def _worker_chunk_solo(indices):
    _W["solo"] = True
    try:
        return _worker_chunk(indices)
    finally:
        _W["solo"] = False


def _worker_cases(cases):
    out = []
    for c in cases:
        st, res = run_in_child(_replay_runner, c)
        if st != "ok":
            out.append({"harness_error": res})
        else:
            out.append(res)
    return out


class Pool:
    def __init__(self, src, modname, tier, seed, workers=None):
        self.workers = workers or min(16, os.cpu_count() or 1)
        verif_root = os.path.dirname(os.path.dirname(os.path.abspath(__file__)))
        ctx = multiprocessing.get_context("fork")
        self.ex = cf.ProcessPoolExecutor(max_workers=self.workers, mp_context=ctx, initializer=_worker_init,
                                         initargs=(src, modname, tier, seed, verif_root))

    def map_indices(self, indices, chunk=None, solo=False):
        """Yield results for the given indices (order of completion; caller sorts by 'index')."""
        indices = list(indices)
        if not indices:
            return
        if chunk is None:
            chunk = max(1, min(256, len(indices) // (self.workers * 8) or 1))
        fn = _worker_chunk_solo if solo else _worker_chunk
        futs = [self.ex.submit(fn, indices[i:i + chunk]) for i in range(0, len(indices), chunk)]
        for f in cf.as_completed(futs):
            for r in f.result():
                yield r

    def run_cases(self, cases):
        """Run explicit cases (replay / shrink candidates) in parallel, results in input order."""
        cases = list(cases)
        if not cases:
            return []
        n = len(cases)
        per = max(1, (n + self.workers - 1) // self.workers)
        futs = [self.ex.submit(_worker_cases, cases[i:i + per]) for i in range(0, n, per)]
        out = []
        for f in futs:
            out.extend(f.result())
        return out

    def close(self):
        self.ex.shutdown(wait=True, cancel_futures=True)
