"""SimLoop: CPython's asyncio event-loop core on a virtual clock, without selector, sockets or threads.

The loop keeps BaseEventLoop._run_once (ready queue, timer heap, Handle/TimerHandle, Task, Future, Lock are
the production objects).  Only these things are replaced:

* time()        -> the world's virtual clock
* _selector     -> FakeSelector: never blocks; when nothing is ready it jumps the clock to the earlier of
                   (next loop timer, next network event) and hands the due network events to _process_events,
                   i.e. network callbacks are queued *before* the timers that became due at the same instant,
                   exactly like a selector loop does (I/O first, then timers).
* create_datagram_endpoint / create_connection -> fake transports attached to the world's SimNet
* getaddrinfo / run_in_executor -> HarnessError (the library must not reach them with numeric hosts)
"""
from __future__ import annotations

import asyncio
import asyncio.base_events


class SimDeadlock(Exception):
    """Nothing ready, nothing scheduled, no network event pending, main coroutine unfinished: a hang."""


class SimBudget(Exception):
    """Step or virtual-time cap exceeded (harness outcome, never a violation by itself)."""


class SimWallBudget(SimBudget):
    """The run made no simulated progress for CASE_WALL seconds of REAL time: code that never returns to the event loop
    (a busy loop).  Raised from a SIGALRM handler into whatever is executing; treated like the step cap (a hang)."""


class HarnessError(Exception):
    """Something the harness did not expect (never reported as a violation)."""


class Clock:
    __slots__ = ("now",)

    def __init__(self):
        self.now = 0.0


class _FakeSelector:
    def __init__(self, loop: "SimLoop"):
        self._loop = loop

    def select(self, timeout):
        loop = self._loop
        world = loop.world
        loop.steps += 1
        if loop.steps > world.max_steps:
            raise SimBudget(f"step cap {world.max_steps} exceeded at t={world.clock.now}")
        net = world.net
        clock = world.clock
        if timeout == 0:
            return net.pop_due(clock.now, loop)
        t_net = net.next_time()
        t_tm = loop._scheduled[0]._when if loop._scheduled else None
        if t_net is None and t_tm is None:
            raise SimDeadlock(f"deadlock at t={clock.now}")
        if t_net is None:
            target = t_tm
        elif t_tm is None:
            target = t_net
        else:
            target = t_net if t_net <= t_tm else t_tm
        if target > clock.now:
            if target > world.max_time:
                raise SimBudget(f"virtual time cap {world.max_time} exceeded (next event at {target})")
            clock.now = target
        return net.pop_due(clock.now, loop)

    def close(self):
        pass


class SimLoop(asyncio.base_events.BaseEventLoop):
    def __init__(self, world, name: str = "L0"):
        super().__init__()
        self.world = world
        self.name = name
        self.steps = 0
        self._clock_resolution = 2.0 ** -30
        self._selector = _FakeSelector(self)
        self.set_exception_handler(self._on_exception)

    # ---- clock -------------------------------------------------------------
    def time(self):
        return self.world.clock.now

    # ---- selector glue -----------------------------------------------------
    def _process_events(self, event_list):
        for fn, args in event_list:
            self.call_soon(fn, *args)

    def _write_to_self(self):
        pass

    # ---- exception handler monitor ----------------------------------------
    def _on_exception(self, loop, context):
        exc = context.get("exception")
        self.world.loop_exceptions.append({
            "t": self.world.clock.now,
            "message": str(context.get("message")),
            "exc_type": type(exc).__name__ if exc is not None else None,
            "exc": repr(exc) if exc is not None else None,
            "handle": repr(context.get("handle"))[:200] if context.get("handle") is not None else None,
        })
        self.world.log("loop_exception", type(exc).__name__ if exc is not None else None,
                       str(context.get("message"))[:80])

    # ---- things that must never be reached --------------------------------
    async def getaddrinfo(self, *a, **k):
        raise HarnessError("getaddrinfo reached")

    def run_in_executor(self, *a, **k):
        raise HarnessError("run_in_executor reached")

    # ---- socket creation ----------------------------------------------------
    async def create_datagram_endpoint(self, protocol_factory, local_addr=None, remote_addr=None, **kw):
        return await self.world.net.open_udp(self, protocol_factory, remote_addr)

    async def create_connection(self, protocol_factory, host=None, port=None, **kw):
        return await self.world.net.open_tcp(self, protocol_factory, host, port)
