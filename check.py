#!/venv/bin/python
"""check.py <ID> [--tier quick|thorough] [--replay FILE] [--src DIR] [--workers N] [--limit N]

Exit codes: 0 property held on everything explored (KNOWN-FINDING lines may be printed)
            1 violation not listed in known_findings.json ("VIOLATION property=<ID> replay=<path>")
            2 harness error (never a pass, never a violation)
"""
from __future__ import annotations

import argparse
import hashlib
import importlib
import json
import os
import sys
import time
import traceback

ROOT = os.path.dirname(os.path.abspath(__file__))
if ROOT not in sys.path:
    sys.path.insert(0, ROOT)

if os.environ.get("PYTHONHASHSEED") is None:
    # hash randomisation must not be a source of nondeterminism: re-exec with a fixed hash seed
    os.environ["PYTHONHASHSEED"] = "0"
    os.execv(sys.executable, [sys.executable] + sys.argv)

from sim import runner, shrink, findings  # noqa: E402
from sim.loop import HarnessError  # noqa: E402

COMPONENTS = {
    "real": ["goodwe.* (from the source root, unmodified)", "asyncio Task/Future/Lock/Handle/TimerHandle",
             "asyncio BaseEventLoop._run_once (ready queue, timer heap)", "asyncio.wait_for / timeouts"],
    "stub": ["clock (virtual)", "selector (FakeSelector)", "UDP/TCP transports (mirror selector_events)",
             "network + fault layer (SimNet)", "peer inverter (SimInverter register-file model, own codec)",
             "DNS/executor (must not be reached)"],
}


def mix_seed(seed: int, pid: str, index: int) -> int:
    h = hashlib.sha256(f"{seed}:{pid}:{index}".encode()).digest()
    return int.from_bytes(h[:8], "big")


def main(argv=None):
    ap = argparse.ArgumentParser()
    ap.add_argument("pid")
    ap.add_argument("--tier", default=os.environ.get("VERIF_TIER", "quick"), choices=["quick", "thorough"])
    ap.add_argument("--replay")
    ap.add_argument("--src", default=os.environ.get("GOODWE_SRC", "/repo"))
    ap.add_argument("--workers", type=int, default=int(os.environ.get("VERIF_WORKERS", "0")) or None)
    ap.add_argument("--limit", type=int, default=None, help="run only the first N cases (debugging)")
    ap.add_argument("--no-evidence", action="store_true")
    ap.add_argument("--no-shrink", action="store_true")
    args = ap.parse_args(argv)
    pid = args.pid.upper()
    modname = "props." + pid.lower()
    try:
        seed = int(os.environ.get("VERIF_SEED", "1"))
    except ValueError:
        seed = 1
    try:
        runner.setup_source(args.src)
        mod = importlib.import_module(modname)
        if args.replay:
            return do_replay(mod, pid, args)
        return do_check(mod, pid, modname, seed, args)
    except Exception:
        traceback.print_exc()
        print(f"HARNESS-ERROR property={pid}")
        return 2


def do_replay(mod, pid, args):
    with open(args.replay) as f:
        rp = json.load(f)
    case = rp["case"]
    st, res = runner.run_in_child(runner.run_case_entry, (mod, case))
    if st != "ok":
        print(res)
        print(f"HARNESS-ERROR property={pid} (replay)")
        return 2
    want = rp["violation"]["key"]
    keys = [v["key"] for v in res["violations"]]
    print(f"replay {args.replay}: expected violation key {want!r}; got {keys!r}; digest {res['digest']} "
          f"(stored {rp.get('digest')})")
    for v in res["violations"]:
        print("  ", v["key"], "--", v["detail"])
    if want in keys:
        same = res["digest"] == rp.get("digest")
        print(f"VIOLATION property={pid} replay={args.replay}" + ("" if same else " (digest differs: tree changed)"))
        return 1
    if keys:
        print(f"VIOLATION property={pid} replay={args.replay} (different key)")
        return 1
    print("replay: property holds on this case")
    return 0


def do_check(mod, pid, modname, seed, args):
    t0 = time.time()
    tier = args.tier
    n = mod.n_cases(tier)
    if args.limit:
        n = min(n, args.limit)
    known = findings.load(os.path.join(ROOT, "known_findings.json"), pid)
    if os.environ.get("VERIF_IGNORE_KNOWN"):
        known = {}   # maintenance only: produce replay files for the listed findings (never used by registered commands)
    import glob
    for old in glob.glob(os.path.join(ROOT, "replays", f"{pid}-*.json")):
        os.remove(old)
    import tempfile
    marker = os.path.join(tempfile.gettempdir(), f"verif-abort-{os.getpid()}")
    if os.path.exists(marker):
        os.remove(marker)
    os.environ["VERIF_ABORT_MARKER"] = marker   # inherited by the pool workers (forked below)
    pool = runner.Pool(args.src, modname, tier, seed, args.workers)
    aborted = False
    try:
        batch = max(1, int(getattr(mod, "BATCH", 1)))
        solo_pass = False
        while True:
            agg = Aggregate(mod, pid)
            wall_hangs = 0
            for res in pool.map_indices(range(n), solo=solo_pass):
                agg.add(res)
                if res.get("wall_hits"):
                    wall_hangs += 1
                    if wall_hangs >= 3 and not aborted:
                        # code that never returns to the event loop costs real time; a few such runs are enough
                        aborted = True
                        open(marker, "w").close()
            if os.path.exists(marker):
                aborted = True   # a worker has seen three such runs in its own chunk
            if aborted:
                print(f"note: {wall_hangs} runs did not return to the event loop within the real-time budget (busy "
                      f"loop); the remaining runs were skipped, {agg.n} of {n} were executed")
                n = agg.n
                sample = []
                break
            if agg.harness_errors:
                for e in agg.harness_errors[:3]:
                    print(e)
                print(f"HARNESS-ERROR property={pid}: {len(agg.harness_errors)} runs failed inside the harness")
                return 2
            # determinism recheck: re-execute a sample of runs (other worker, alone in a fresh child) and compare digests
            k = max(10, min(200, n // 100))
            step = max(1, n // k)
            sample = list(range(0, n, step))[:k]
            mism = 0
            mism_idx = []
            for res in pool.map_indices(sample, chunk=1, solo=True):
                if "harness_error" in res or agg.digests.get(res["index"]) != res["digest"]:
                    mism += 1
                    mism_idx.append((res.get("index"), res.get("harness_error", "digest differs")))
            if mism and batch > 1 and not solo_pass:
                # runs sharing a child influenced each other: the tree under test keeps process-global state that the
                # batching assumption does not know.  Fall back to one pristine child per run and judge on that.
                print(f"note: {mism} batched runs differ from their solo re-execution; repeating all {n} runs with one "
                      f"pristine process per run")
                solo_pass = True
                continue
            if mism:
                print(f"HARNESS-ERROR property={pid}: {mism} determinism mismatches (run indices {mism_idx[:5]})")
                return 2
            break
        agg.determinism_rechecks = len(sample)

        # violations: group by key
        new_keys = []
        known_seen = {}
        for key, lst in sorted(agg.by_key.items()):
            kf = known.get(key)
            if kf is not None and kf["status"] == "known":
                known_seen[key] = (kf, agg.key_counts.get(key, len(lst)))
            else:
                new_keys.append(key)
        for key, (kf, cnt) in sorted(known_seen.items()):
            print(f"KNOWN-FINDING: property={pid} {key} -- {kf['what']} ({cnt} runs)")
        exit_code = 0
        replays = []
        reported = set()
        budget_keys = new_keys[:16] if not aborted else new_keys[:3]
        for key in budget_keys:
            index, case, viol = min(agg.by_key[key], key=lambda t: t[0])
            small, sviol, digest = case, viol, agg.digests.get(index)
            if not args.no_shrink and not aborted:
                try:
                    small, sviol, digest = shrink.minimise(pool, mod, case, key, viol, digest)
                except Exception:
                    traceback.print_exc()
            fkey = sviol["key"]
            if fkey in reported:
                continue
            kf = known.get(fkey)
            if kf is not None and kf["status"] == "known":
                # the minimal form of this violation is a listed finding (the original key was a consequence of it)
                if fkey not in known_seen:
                    known_seen[fkey] = (kf, agg.key_counts.get(key, 0))
                    print(f"KNOWN-FINDING: property={pid} {fkey} -- {kf['what']} (seen as {key})")
                continue
            reported.add(fkey)
            kh = hashlib.sha256(fkey.encode()).hexdigest()[:6]
            path = os.path.join(ROOT, "replays", f"{pid}-{seed}-{index}-{kh}.json")
            os.makedirs(os.path.dirname(path), exist_ok=True)
            with open(path, "w") as f:
                json.dump({"property": pid, "seed": seed, "index": index, "tier": tier, "violation": sviol,
                           "digest": digest, "case": small, "original_case_size": shrink.size(case),
                           "minimised_case_size": shrink.size(small), "original_key": key,
                           "occurrences_in_this_run": agg.key_counts.get(key, 0)}, f, indent=1, sort_keys=True)
            # confirm in a fresh child before reporting
            st, res = runner.run_in_child(runner.run_case_entry, (mod, small))
            if st != "ok" or fkey not in [v["key"] for v in res["violations"]]:
                print(f"HARNESS-ERROR property={pid}: minimised case for {fkey} does not reproduce")
                return 2
            print(f"  {fkey}: {sviol['detail']}")
            print(f"VIOLATION property={pid} replay={path}")
            replays.append(path)
            exit_code = 1
        new_keys = sorted(reported) + new_keys[len(budget_keys):]
        if len(new_keys) > len(reported):
            exit_code = 1
        if len(new_keys) > len(reported):
            print(f"  (+{len(new_keys) - len(reported)} further distinct violation keys not minimised)")
        wall = time.time() - t0
        if aborted and exit_code == 0:
            print(f"HARNESS-ERROR property={pid}: runs did not return to the event loop (real-time hang) and no violation "
                  f"of this property was observed in the {agg.n} runs executed; the property was not evaluated")
            return 2
        if not args.no_evidence:
            write_evidence(mod, pid, tier, seed, n, agg, wall, known_seen, new_keys, pool.workers)
        print(f"{pid} {tier}: {n} runs, {len(agg.sigs)} distinct non-trivial traces, "
              f"{sum(agg.key_counts.values())} violation reports "
              f"({len(known_seen)} known keys, {len(new_keys)} new), sim {agg.simtime:.0f}s, wall {wall:.1f}s")
        return exit_code
    finally:
        pool.close()
        if os.path.exists(marker):
            os.remove(marker)


class Aggregate:
    def __init__(self, mod, pid):
        self.mod = mod
        self.pid = pid
        self.n = 0
        self.by_key = {}
        self.key_counts = {}
        self.sigs = set()
        self.counters = {}
        self.probes = {}
        self.simtime = 0.0
        self.steps = 0
        self.digests = {}
        self.harness_errors = []
        self.samples = {}
        self.determinism_rechecks = 0
        self.trivial = 0
        self.extra = {}

    def add(self, res):
        if "harness_error" in res:
            self.harness_errors.append(f"index {res.get('index')}: {res['harness_error']}")
            return
        self.n += 1
        i = res["index"]
        self.digests[i] = res["digest"]
        for k, v in res.get("counters", {}).items():
            self.counters[k] = self.counters.get(k, 0) + v
        for k, v in res.get("probes", {}).items():
            self.probes[k] = self.probes.get(k, 0) + v
        for k, v in res.get("extra", {}).items():
            self.extra[k] = self.extra.get(k, 0) + v
        self.simtime += res.get("simtime", 0.0)
        self.steps += res.get("steps", 0)
        if res.get("nontrivial"):
            sigs = res.get("sigs")
            if sigs is None:
                sigs = [res["sig"]]
            if len(self.sigs) < 4_000_000:
                self.sigs.update(sigs)
        else:
            self.trivial += 1
        for v in res["violations"]:
            self.by_key.setdefault(v["key"], [])
            lst = self.by_key[v["key"]]
            self.key_counts[v["key"]] = self.key_counts.get(v["key"], 0) + 1
            if len(lst) < 50:
                lst.append((i, res["case"], v))
            else:
                # keep the 50 lowest run indices, so that the reported representative does not depend on the order in
                # which the worker processes happen to finish
                j = max(range(len(lst)), key=lambda q: lst[q][0])
                if i < lst[j][0]:
                    lst[j] = (i, res["case"], v)
        # samples: one with faults, one minimal, most eventful
        ev = res.get("events", 0)
        c = res.get("case_small")
        if c is not None:
            if "first_nontrivial" not in self.samples and res.get("nontrivial"):
                self.samples["first_nontrivial"] = (ev, c)
            if "most_eventful" not in self.samples or ev > self.samples["most_eventful"][0]:
                self.samples["most_eventful"] = (ev, c)
            if "smallest" not in self.samples or ev < self.samples["smallest"][0]:
                self.samples["smallest"] = (ev, c)


def write_evidence(mod, pid, tier, seed, n, agg, wall, known_seen, new_keys, workers):
    cov = {
        "evaluations": agg.n,
        "distinct_nontrivial": len(agg.sigs),
        "rule": mod.RULE,
        "samples": [{"which": k, "events": v[0], "case": v[1]} for k, v in sorted(agg.samples.items())],
        "runs_per_hour": int(agg.n / wall * 3600) if wall > 0 else 0,
        "seeds_per_hour": int(agg.n / wall * 3600) if wall > 0 else 0,
        "simulated_seconds": round(agg.simtime, 3),
        "loop_iterations": agg.steps,
        "faults_fired": {k[6:]: v for k, v in sorted(agg.counters.items()) if k.startswith("fault:")},
        "net_counters": {k: v for k, v in sorted(agg.counters.items()) if not k.startswith("fault:")},
        "probes": dict(sorted(agg.probes.items())),
        "components": COMPONENTS,
        "determinism_rechecks": agg.determinism_rechecks,
        "known_findings_seen": {k: c for k, (kf, c) in sorted(known_seen.items())},
        "new_violation_keys": new_keys,
        "workers": workers,
        "trivial_runs": agg.trivial,
    }
    if agg.extra:
        cov["extra"] = dict(sorted(agg.extra.items()))
    ee = getattr(mod, "evidence_extra", None)
    if ee is not None:
        cov.update(ee(tier))
    ex = getattr(mod, "exhaustive", None)
    if ex is not None and ex(tier):
        cov["exhaustive"] = True
    ev = {
        "property_id": pid, "tier": tier, "seed": seed, "level": mod.LEVEL, "coverage": cov,
        "assumptions": list(mod.ASSUMPTIONS), "wall_s": round(wall, 2),
        "violations": len(new_keys),
    }
    os.makedirs(os.path.join(ROOT, "evidence"), exist_ok=True)
    with open(os.path.join(ROOT, "evidence", f"{pid}.json"), "w") as f:
        json.dump(ev, f, indent=1, sort_keys=True, default=str)


if __name__ == "__main__":
    sys.exit(main())
